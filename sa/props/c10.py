"""C10 — removing or cutting out network elements leaves no dangling references.

  REF-CLEAN   each cleanup_*_references re-assigns every reference field of its kind (frozen table)
              from a filter against the id set of the right registry, iterating all holders
  REF-AFTER   every deletion from _lanelets/_traffic_signs/_traffic_lights is followed, on the path
              where it happened, by the matching cleanup call
  REF-CUT     create_from_lanelet_network, evaluated (c10ev.cut_out_rules): copies of exactly the selected elements,
              nothing cut away is referred to, source untouched
              through the kept-id set, copies only signs/lights of kept lanelets, cleans lanelet refs
  REF-HANG    remove_hanging_lanelet_members, evaluated (c10ev.hanging_rules): exactly (referenced by removed) -
              (referenced by remaining) goes
"""
import ast

from ..core import AnalysisError, Finding, attr_chain, call_name, canon, dominating_guards, norm, walk_no_nested
from ..dataflow import Provenance, ReachingDefs

L = "commonroad/scenario/lanelet.py"
S = "commonroad/scenario/scenario.py"

# kind -> (registry attr, cleanup fn, [(holder class, private field, companion fields reset together)])
REF_FIELDS = {
    "lanelet": (
        "_lanelets",
        "cleanup_lanelet_references",
        [
            ("Lanelet", "_predecessor"),
            ("Lanelet", "_successor"),
            ("Lanelet", "_adj_left"),
            ("Lanelet", "_adj_left_same_direction"),
            ("Lanelet", "_adj_right"),
            ("Lanelet", "_adj_right_same_direction"),
            ("IntersectionIncomingElement", "_incoming_lanelets"),
            ("IntersectionIncomingElement", "_successors_right"),
            ("IntersectionIncomingElement", "_successors_straight"),
            ("IntersectionIncomingElement", "_successors_left"),
            ("Intersection", "_crossings"),
        ],
    ),
    "traffic sign": ("_traffic_signs", "cleanup_traffic_sign_references", [("Lanelet", "_traffic_signs"), ("StopLine", "_traffic_sign_ref")]),
    "traffic light": ("_traffic_lights", "cleanup_traffic_light_references", [("Lanelet", "_traffic_lights"), ("StopLine", "_traffic_light_ref")]),
}
# which public attribute carries the id whose existence decides a companion field
COMPANION = {"_adj_left_same_direction": "adj_left", "_adj_right_same_direction": "adj_right"}
HOLDER_ITER = {
    "Lanelet": ("self.lanelets", "self._lanelets.values()"),
    "Intersection": ("self.intersections", "self._intersections.values()"),
}




def enclosing_ifs(mod, node, stop):
    """(test text, polarity) of the if-statements enclosing node (no sibling/assert guards)."""
    out = []
    child, n = node, mod.parent.get(node)
    while n is not None and n is not stop:
        if isinstance(n, ast.If):
            out.append((norm(n.test), child in n.body))
        child, n = n, mod.parent.get(n)
    return out




def run(repo, res, tier):
    res.rule("REF-CLEAN", "after a clean-up no reference names a missing id and none to a present id is lost", 3)
    res.rule("REF-AFTER", "after removing a lanelet / sign / light / intersection no reference names it, references to what is left are kept", 8)
    res.rule("REF-CUT", "cut-out filters intersection references by the kept ids and copies only referenced signs/lights", 6)
    res.rule("REF-HANG", "hanging signs/lights = referenced by removed minus referenced by remaining lanelets", 4)
    net = repo.cls(L, "LaneletNetwork")
    mod = net.mod

    # anchors of the table: the private fields exist in their classes
    for kind, (reg, cfn, fields) in REF_FIELDS.items():
        for hc, f in fields:
            cands = repo.class_index.get(hc, [])
            if not cands or not any(isinstance(n, ast.Attribute) and n.attr == f for n in ast.walk(cands[0].node)):
                raise AnalysisError("reference field %s.%s no longer exists" % (hc, f))

    # ---------------- REF-CLEAN, REF-AFTER: decided by abstract evaluation on a densely cross-referenced network
    # (c10ev): after every clean-up / removal no reference names a missing id and none to a present id is lost
    from . import c10ev

    c10ev.reference_rules(repo, res)

    # ---------------- REF-CUT
    cut = repo.method(L, "LaneletNetwork", "create_from_lanelet_network")
    qn = "LaneletNetwork.create_from_lanelet_network"
    # decided by evaluation on a small network (c10ev.cut_out_rules): what the new network holds and refers to
    from . import c10ev as _c10ev_cut

    _c10ev_cut.cut_out_rules(repo, res, "REF-CUT")
    # create_from_lanelet_list
    lst = repo.method(L, "LaneletNetwork", "create_from_lanelet_list")
    calls = {norm(n.func).split(".")[-1]: n for n in walk_no_nested(lst) if isinstance(n, ast.Call)}
    need = ["cleanup_lanelet_references", "cleanup_traffic_light_references", "cleanup_traffic_sign_references"]
    ok = all(x in calls for x in need) and all(enclosing_ifs(mod, calls[x], lst) in ([("cleanup_ids", True)], []) for x in need if x in calls)
    res.check("REF-CUT", "create_from_lanelet_list cleans lanelet, sign and light references (default)", ok, mod, lst, "create_from_lanelet_list cleanups", "a network built from a lanelet list keeps references to elements that are not part of it", qualname="LaneletNetwork.create_from_lanelet_list")

    # ---------------- REF-HANG
    sc = repo.cls(S, "Scenario")
    hang = repo.method(S, "Scenario", "remove_hanging_lanelet_members")
    smod = sc.mod
    qn = "Scenario.remove_hanging_lanelet_members"
    # decided by evaluation on a small network (c10ev.hanging_rules): what is handed to the removal functions
    from . import c10ev as _c10ev

    _c10ev.hanging_rules(repo, res, "REF-HANG")
    # Scenario.remove_lanelet: hanging members are determined before the lanelets are dropped
    rl = repo.method(S, "Scenario", "remove_lanelet")
    hcall = [n for n in walk_no_nested(rl) if isinstance(n, ast.Call) and norm(n.func) == "self.remove_hanging_lanelet_members"]
    dcall = [n for n in walk_no_nested(rl) if isinstance(n, ast.Call) and norm(n.func).endswith("lanelet_network.remove_lanelet")]
    ok = len(hcall) == 1 and len(dcall) == 1 and hcall[0].lineno < dcall[0].lineno
    ok = ok and enclosing_ifs(smod, hcall[0], rl) in ([("referenced_elements", True)], [])
    res.check("REF-HANG", "Scenario.remove_lanelet determines hanging members before dropping the lanelets", ok, smod, rl, "remove_lanelet order", "after the lanelets are gone their sign/light references can no longer be compared with the remaining lanelets", qualname="Scenario.remove_lanelet")
    return {"reference_field_table": {k: [list(x) for x in v[2]] for k, v in REF_FIELDS.items()}}

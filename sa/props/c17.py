"""C17 — traffic-light state follows the cycle definition.

Symbolic abstract interpretation of TrafficLightCycle.cycle_init_timesteps and get_state_at_time_step over a small
term domain (linear forms in t = queried time step, off = time offset, T = total duration; `a mod b`; the table of
window starts [b, b+d1, b+d1+d2, .., b+T]; boolean masks value<table; first-true index; element selection).  The
numpy idioms the code may use are given transfer functions; the term computed for the returned value is compared with
the specification term

        state of elements[ window index of (off + ((t - off) mod T)) in [off, off+d1, .., off+T) ]

(up to the common shift of value and table).  A recognised term that differs from it is a VIOLATION naming what
differs (modulus, shift, strictness of the window test, the -1, the table start, the element list); an expression
outside the vocabulary is an ANALYSIS-ERROR (exit 2) — the check refuses, it does not guess.

CYC-CASES    (sa/props/c17ev.py) the same question answered by abstract evaluation on sampled cycles — two colour
             sequences (one with a colour that returns within the cycle), three offsets, every time step over two
             periods, some asked again, then after time_offset and cycle_elements were assigned through their setters;
             durations, offset and time step stay atoms, comparisons are answered by the valuation of the case.  It
             decides whatever the code looks like; when the term interpreter below does not recognise the code, the
             check reports that the for-all proof is missing and decides on these cases (it refuses only when both
             stop).  The same world asks TrafficLight.get_state_at_time_step (CYC-DELEGATE, lights constructed active
             and not active).
CYC-TABLE    cycle_init_timesteps is [off, off+d1, .., off+T] built from the durations of the cycle elements in order
CYC-LOOKUP   get_state_at_time_step returns elements[i].state with i the window of off + ((t-off) mod T) in that table
CYC-DELEGATE TrafficLight.get_state_at_time_step returns its cycle's answer for the same time step
"""
import ast

from ..core import AnalysisError, Finding, call_name, norm, walk_no_nested
from ..effects import FnKey

T = "commonroad/scenario/traffic_light.py"


# ----------------------------------------------------------------------------- terms


class Lin:
    def __init__(self, c=None):
        self.c = {k: v for k, v in (c or {}).items() if v}

    def __add__(self, o):
        d = dict(self.c)
        for k, v in o.c.items():
            d[k] = d.get(k, 0) + v
        return Lin(d)

    def __neg__(self):
        return Lin({k: -v for k, v in self.c.items()})

    def __sub__(self, o):
        return self + (-o)

    def __eq__(self, o):
        return isinstance(o, Lin) and self.c == o.c

    def __hash__(self):
        return hash(tuple(sorted(self.c.items())))

    def has(self, s):
        return s in self.c

    def __repr__(self):
        if not self.c:
            return "0"
        return " + ".join(("%s" % k if v == 1 else "%s*%s" % (v, k)) if k != "1" else str(v) for k, v in sorted(self.c.items())).replace("+ -", "- ")


class Mod:
    def __init__(self, a, b, kind="%"):
        self.a, self.b, self.kind = a, b, kind

    def __repr__(self):
        return "((%r) %s (%r))" % (self.a, "mod" if self.kind == "%" else self.kind, self.b)


class ModPlus:
    """(a mod b) + shift"""

    def __init__(self, m, shift):
        self.m, self.shift = m, shift

    def __repr__(self):
        return "%r + %r" % (self.m, self.shift)


class Durations:
    def __init__(self, src):
        self.src = src

    def __repr__(self):
        return "durations(%s)" % self.src


class Cum:
    """[base + d1, base + d1 + d2, .., base + T]"""

    def __init__(self, base, src):
        self.base, self.src = base, src

    def __repr__(self):
        return "cumsum(durations(%s)) + %r" % (self.src, self.base)


class CacheMutation(Exception):
    def __init__(self, node):
        Exception.__init__(self, "in-place update of the memoised table")
        self.node = node


class Table:
    """[first, base + d1, .., base + T]"""

    def __init__(self, first, base, src):
        self.first, self.base, self.src = first, base, src

    def __repr__(self):
        return "[%r, %r + d1, .., %r + T]" % (self.first, self.base, self.base)


class Mask:
    def __init__(self, value, op, table):
        self.value, self.op, self.table = value, op, table

    def __repr__(self):
        return "(%r %s %r)" % (self.value, self.op, self.table)


class Idx:
    def __init__(self, mask, shift):
        self.mask, self.shift = mask, shift

    def __repr__(self):
        return "first_true%r %+d" % (self.mask, self.shift)


class Elem:
    def __init__(self, src, idx):
        self.src, self.idx = src, idx

    def __repr__(self):
        return "%s[%r]" % (self.src, self.idx)


class StateOf:
    def __init__(self, elem):
        self.elem = elem

    def __repr__(self):
        return "%r.state" % self.elem


class Cases:
    """value depending on the path taken: [(facts, value)], facts = list of (Lin, strict) meaning Lin > 0 / >= 0,
    or None when the path condition could not be expressed"""

    def __init__(self, alts):
        self.alts = alts

    def __repr__(self):
        return " | ".join("%r if %s" % (v, "?" if f is None else " and ".join("%r %s 0" % (l, ">" if st else ">=") for l, st in f)) for f, v in self.alts)


def lift(fn, *vals):
    """apply fn to plain values, distributing over Cases arguments"""
    if not any(isinstance(v, Cases) for v in vals):
        return fn(*vals)
    combos = [([], [])]
    for v in vals:
        alts = v.alts if isinstance(v, Cases) else [([], v)]
        new = []
        for facts, args in combos:
            for f2, x in alts:
                nf = None if (facts is None or f2 is None) else facts + f2
                new.append((nf, args + [x]))
        combos = new
    return Cases([(f, fn(*a)) for f, a in combos])


class Unrecognised(Exception):
    pass


# ----------------------------------------------------------------------------- interpreter


class Interp:
    def __init__(self, repo, cls, tparam=None):
        self.repo, self.cls, self.tparam = repo, cls, tparam
        self.env = {}
        self.depth = 0

    def attr_self(self, name):
        """abstract value of self.<name>"""
        bare = name.lstrip("_")
        if bare == "time_offset":
            g = self.cls.props.get("time_offset", {}).get("get")
            if name == "time_offset" and g is not None and not self._trivial_getter(g, "_time_offset"):
                raise Unrecognised("time_offset getter is not a plain attribute read")
            return Lin({"off": 1})
        if bare == "cycle_elements":
            g = self.cls.props.get("cycle_elements", {}).get("get")
            if name == "cycle_elements" and g is not None and not self._trivial_getter(g, "_cycle_elements"):
                raise Unrecognised("cycle_elements getter is not a plain attribute read")
            return ("elements",)
        if name == "cycle_init_timesteps":
            g = self.cls.props.get("cycle_init_timesteps", {}).get("get")
            if g is None:
                raise Unrecognised("no cycle_init_timesteps getter")
            return self.table_of_getter(g)
        if name in self.env:
            return self.env[name]
        raise Unrecognised("self.%s" % name)

    @staticmethod
    def _trivial_getter(g, slot):
        body = [s for s in g.body if not (isinstance(s, ast.Expr) and isinstance(s.value, ast.Constant))]
        return len(body) == 1 and isinstance(body[0], ast.Return) and norm(body[0].value) == "self." + slot

    def table_of_getter(self, g):
        """interpret the memo getter: the value stored into the slot it returns"""
        if self.depth > 3:
            raise Unrecognised("recursive getter")
        sub = Interp(self.repo, self.cls)
        sub.depth = self.depth + 1
        from ..flowtools import memo_form

        mf = memo_form(g)
        if mf is not None:
            slot = mf["slot"]
            stmts = mf["compute"]
        else:
            body = [s for s in g.body if not (isinstance(s, ast.Expr) and isinstance(s.value, ast.Constant))]
            ret = [s for s in body if isinstance(s, ast.Return)]
            if len(ret) != 1 or not isinstance(ret[0].value, (ast.Attribute, ast.Name)):
                raise Unrecognised("cycle_init_timesteps is neither a memo getter nor a straight-line computation")
            # no memo: the value is computed on every query and returned
            stmts = [s for s in body if not isinstance(s, ast.Return)]
            slot = None
            for s in stmts:
                sub.exec(s)
            return sub.ev(ret[0].value)
        for s in stmts:
            sub.exec(s)
        if ("self." + slot) not in sub.env:
            raise Unrecognised("slot %s is not computed in the getter" % slot)
        return sub.env["self." + slot]

    def exec(self, s):
        if isinstance(s, (ast.Assign, ast.AnnAssign)):
            tgt = s.targets[0] if isinstance(s, ast.Assign) else s.target
            v = self.ev(s.value)
            self.env[norm(tgt)] = v
            return
        if isinstance(s, ast.Expr) and isinstance(s.value, ast.Constant):
            return
        if isinstance(s, ast.Assert):
            return
        if isinstance(s, ast.For) and not s.orelse and len(s.body) == 1 and isinstance(s.body[0], ast.Expr) and isinstance(s.body[0].value, ast.Call):
            # lst = []; for el in <elements>: lst.append(el.duration)
            c = s.body[0].value
            if isinstance(c.func, ast.Attribute) and c.func.attr == "append" and isinstance(c.func.value, ast.Name) and self.env.get(c.func.value.id) == ("emptylist",) and len(c.args) == 1:
                a = c.args[0]
                if isinstance(a, ast.Attribute) and a.attr == "duration" and norm(a.value) == norm(s.target) and self.ev(s.iter) == ("elements",):
                    self.env[c.func.value.id] = Durations("elements")
                    return
        if isinstance(s, ast.AugAssign) and isinstance(s.target, ast.Name):
            cur = self.env.get(s.target.id)
            if isinstance(cur, Table) or (isinstance(cur, Cases) and any(isinstance(x, Table) for _f, x in cur.alts)):
                # the table is the memoised object itself (the getter hands out the cache): an in-place update changes
                # what every later query reads
                raise CacheMutation(s)
            self.env[s.target.id] = self.ev(ast.copy_location(ast.BinOp(left=ast.Name(id=s.target.id, ctx=ast.Load()), op=s.op, right=s.value), s))
            return
        if isinstance(s, ast.For) and not s.orelse and isinstance(s.iter, ast.Call) and norm(s.iter.func) == "enumerate" and len(s.iter.args) == 1 and isinstance(s.target, ast.Tuple) and len(s.target.elts) == 2 and len(s.body) == 1 and isinstance(s.body[0], ast.If) and not s.body[0].orelse:
            # first-index scan:  idx = 0 ; for i, x in enumerate(table): if v < x: idx = i ; break   ==  argmax(v < table)
            tb = self.ev(s.iter.args[0])
            iv, xv = (norm(t_) for t_ in s.target.elts)
            iff = s.body[0]
            t = iff.test
            if isinstance(tb, Table) and isinstance(t, ast.Compare) and len(t.ops) == 1 and len(iff.body) == 2 and isinstance(iff.body[1], ast.Break) and isinstance(iff.body[0], ast.Assign) and isinstance(iff.body[0].targets[0], ast.Name) and norm(iff.body[0].value) == iv:
                l, r = t.left, t.comparators[0]
                op = {ast.Lt: "<", ast.LtE: "<=", ast.Gt: ">", ast.GtE: ">="}.get(type(t.ops[0]))
                if op is not None and (norm(r) == xv or norm(l) == xv):
                    if norm(l) == xv:
                        l, r = r, l
                        op = {"<": ">", "<=": ">=", ">": "<", ">=": "<="}[op]
                    tgt = iff.body[0].targets[0].id
                    dflt = self.env.get(tgt)
                    if op in ("<", "<=") and isinstance(dflt, Lin) and dflt == Lin():
                        self.env[tgt] = Idx(Mask(self.ev(l), op, tb), 0)
                        return
            raise Unrecognised("loop %s" % norm(s)[:60])
        if isinstance(s, ast.If):
            pos, neg = self.cond_facts(s.test)
            a, b = Interp(self.repo, self.cls, self.tparam), Interp(self.repo, self.cls, self.tparam)
            a.env, b.env = dict(self.env), dict(self.env)
            a.depth = b.depth = self.depth
            for st in s.body:
                a.exec(st)
            for st in s.orelse:
                b.exec(st)
            for k in set(a.env) | set(b.env):
                va, vb = a.env.get(k), b.env.get(k)
                if va is vb:
                    self.env[k] = va
                    continue
                if va is None or vb is None:
                    raise Unrecognised("%s is assigned on one branch only" % k)
                alts = []
                for facts, v in ((pos, va), (neg, vb)):
                    for f2, x in (v.alts if isinstance(v, Cases) else [([], v)]):
                        alts.append((None if (facts is None or f2 is None) else facts + f2, x))
                self.env[k] = Cases(alts)
            return
        raise Unrecognised("statement %s" % norm(s)[:60])

    def cond_facts(self, test):
        """(facts if the test holds, facts if it does not) over linear terms; None = not expressible"""
        if isinstance(test, ast.BoolOp) and isinstance(test.op, ast.And):
            pos = []
            for v in test.values:
                p, _n = self.cond_facts(v)
                if p is None:
                    return None, None
                pos += p
            return pos, None
        if isinstance(test, ast.UnaryOp) and isinstance(test.op, ast.Not):
            p, n = self.cond_facts(test.operand)
            return n, p
        if not isinstance(test, ast.Compare):
            return None, None
        ops = [test.left] + list(test.comparators)
        try:
            vals = [self.ev(o) for o in ops]
        except Unrecognised:
            return None, None
        if not all(isinstance(v, Lin) for v in vals):
            return None, None
        pos = []
        for a, op, b in zip(vals, test.ops, vals[1:]):
            if isinstance(op, ast.Lt):
                pos.append((b - a, True))
            elif isinstance(op, ast.LtE):
                pos.append((b - a, False))
            elif isinstance(op, ast.Gt):
                pos.append((a - b, True))
            elif isinstance(op, ast.GtE):
                pos.append((a - b, False))
            else:
                return None, None
        neg = None
        if len(pos) == 1:
            l, st = pos[0]
            neg = [(-l, not st)]
        return pos, neg

    def ev(self, e):
        """evaluate; variables holding path-dependent values are expanded into one evaluation per path"""
        names = sorted({n.id for n in ast.walk(e) if isinstance(n, ast.Name) and isinstance(self.env.get(n.id), Cases)})
        if not names:
            return self._ev(e)
        combos = [([], {})]
        for nm in names:
            new = []
            for facts, binds in combos:
                for f2, x in self.env[nm].alts:
                    new.append((None if (facts is None or f2 is None) else facts + f2, dict(binds, **{nm: x})))
            combos = new
        alts = []
        for facts, binds in combos:
            sub = Interp(self.repo, self.cls, self.tparam)
            sub.env = dict(self.env, **binds)
            sub.depth = self.depth
            v = sub._ev(e)
            for f2, x in (v.alts if isinstance(v, Cases) else [([], v)]):
                alts.append((None if (facts is None or f2 is None) else facts + f2, x))
        return Cases(alts)

    def _ev(self, e):
        if isinstance(e, ast.Constant) and isinstance(e.value, int) and not isinstance(e.value, bool):
            return Lin({"1": e.value})
        if isinstance(e, (ast.List,)) and not e.elts:
            return ("emptylist",)
        if isinstance(e, ast.Call) and call_name(e) in ("list",) and not e.args:
            return ("emptylist",)
        if isinstance(e, ast.Call) and isinstance(e.func, ast.Attribute) and isinstance(e.func.value, ast.Name) and e.func.value.id in ("self", "cls") and self.depth < 4:
            # a same-class helper: interpret its straight-line body with the parameters bound to the arguments
            _o, h = self.repo.find_method(self.cls, e.func.attr)
            if h is not None and not e.keywords:
                hp = [a.arg for a in h.args.args][1:]
                if len(hp) == len(e.args):
                    sub = Interp(self.repo, self.cls, None)
                    sub.depth = self.depth + 1
                    for pn, a in zip(hp, e.args):
                        sub.env[pn] = self.ev(a)
                    for st in h.body:
                        if isinstance(st, ast.Return):
                            return sub.ev(st.value)
                        sub.exec(st)
                    raise Unrecognised("helper %s has no straight-line return" % h.name)
        if isinstance(e, ast.Name):
            if e.id == self.tparam:
                return Lin({"t": 1})
            if e.id in self.env:
                return self.env[e.id]
            raise Unrecognised("name %s" % e.id)
        if isinstance(e, ast.Attribute) and norm(e.value) == "self":
            if ("self." + e.attr) in self.env:
                return self.env["self." + e.attr]
            return self.attr_self(e.attr)
        if isinstance(e, ast.Attribute) and e.attr == "state":
            b = self.ev(e.value)
            if isinstance(b, Elem):
                return StateOf(b)
            raise Unrecognised(norm(e))
        if isinstance(e, ast.ListComp):
            if len(e.generators) == 1 and not e.generators[0].ifs and isinstance(e.elt, ast.Attribute) and e.elt.attr == "duration" and norm(e.elt.value) == norm(e.generators[0].target):
                src = self.ev(e.generators[0].iter)
                if src == ("elements",):
                    return Durations("elements")
            raise Unrecognised(norm(e)[:80])
        if isinstance(e, ast.UnaryOp) and isinstance(e.op, ast.USub):
            v = self.ev(e.operand)
            if isinstance(v, Lin):
                return -v
            raise Unrecognised(norm(e))
        if isinstance(e, ast.BinOp):
            a, b = self.ev(e.left), self.ev(e.right)
            if isinstance(e.op, (ast.Add, ast.Sub)):
                neg = isinstance(e.op, ast.Sub)
                if isinstance(a, Lin) and isinstance(b, Lin):
                    return a - b if neg else a + b
                if isinstance(a, Cum) and isinstance(b, Lin) and not b.has("t"):
                    return Cum(a.base - b if neg else a.base + b, a.src)
                if isinstance(b, Cum) and isinstance(a, Lin) and not neg and not a.has("t"):
                    return Cum(b.base + a, b.src)
                if isinstance(a, Table) and isinstance(b, Lin) and not b.has("t"):
                    return Table(a.first - b if neg else a.first + b, a.base - b if neg else a.base + b, a.src)
                if isinstance(a, Mod) and isinstance(b, Lin):
                    return ModPlus(a, -b if neg else b)
                if isinstance(b, Mod) and isinstance(a, Lin) and not neg:
                    return ModPlus(b, a)
                if isinstance(a, ModPlus) and isinstance(b, Lin):
                    return ModPlus(a.m, a.shift - b if neg else a.shift + b)
                if isinstance(a, Idx) and isinstance(b, Lin) and set(b.c) <= {"1"}:
                    k = b.c.get("1", 0)
                    return Idx(a.mask, a.shift - k if neg else a.shift + k)
            if isinstance(e.op, ast.Mod) and isinstance(a, Lin) and isinstance(b, Lin):
                return Mod(a, b)
            raise Unrecognised(norm(e)[:80])
        if isinstance(e, ast.Compare) and len(e.ops) == 1:
            a, b = self.ev(e.left), self.ev(e.comparators[0])
            op = type(e.ops[0])
            if isinstance(b, Table) and isinstance(a, (Lin, Mod, ModPlus)):
                sym = {ast.Lt: "<", ast.LtE: "<=", ast.Gt: ">", ast.GtE: ">="}.get(op)
            elif isinstance(a, Table) and isinstance(b, (Lin, Mod, ModPlus)):
                sym = {ast.Gt: "<", ast.GtE: "<=", ast.Lt: ">", ast.LtE: ">="}.get(op)
                a, b = b, a
            else:
                sym = None
            if sym is None:
                raise Unrecognised(norm(e)[:80])
            return Mask(a, sym, b)
        if isinstance(e, ast.Subscript):
            b = self.ev(e.value)
            if isinstance(b, Table):
                i = e.slice
                if isinstance(i, ast.UnaryOp) and isinstance(i.op, ast.USub) and isinstance(i.operand, ast.Constant) and i.operand.value == 1:
                    return b.base + Lin({"T": 1})
                if isinstance(i, ast.Constant) and i.value == 0:
                    return b.first
                raise Unrecognised(norm(e))
            if b == ("elements",):
                i = self.ev(e.slice)
                return Elem("elements", i)
            raise Unrecognised(norm(e)[:80])
        if isinstance(e, ast.IfExp):
            # X[0] if X.size > 0 else 0  with X the indices where a mask holds: the first such index, 0 if there is
            # none — what np.argmax of the mask gives
            def where(x):
                if isinstance(x, ast.Call) and (call_name(x) or "") in ("np.flatnonzero", "numpy.flatnonzero") and len(x.args) == 1:
                    return x.args[0]
                if isinstance(x, ast.Subscript) and isinstance(x.slice, ast.Constant) and x.slice.value == 0 and isinstance(x.value, ast.Call) and (call_name(x.value) or "") in ("np.nonzero", "np.where", "numpy.nonzero", "numpy.where") and len(x.value.args) == 1:
                    return x.value.args[0]
                return None

            b, t, o = e.body, e.test, e.orelse
            if isinstance(b, ast.Subscript) and isinstance(b.slice, ast.Constant) and b.slice.value == 0 and where(b.value) is not None and isinstance(o, ast.Constant) and o.value == 0:
                m_ = where(b.value)
                size_ok = False
                if isinstance(t, ast.Compare) and len(t.ops) == 1 and isinstance(t.comparators[0], ast.Constant):
                    l_ = t.left
                    same = (isinstance(l_, ast.Attribute) and l_.attr == "size" and norm(l_.value) == norm(b.value)) or (isinstance(l_, ast.Call) and (call_name(l_) or "") == "len" and len(l_.args) == 1 and norm(l_.args[0]) == norm(b.value))
                    size_ok = same and ((isinstance(t.ops[0], ast.Gt) and t.comparators[0].value == 0) or (isinstance(t.ops[0], ast.GtE) and t.comparators[0].value == 1) or (isinstance(t.ops[0], ast.NotEq) and t.comparators[0].value == 0))
                elif (isinstance(t, ast.Attribute) and t.attr == "size" and norm(t.value) == norm(b.value)):
                    size_ok = True
                if size_ok:
                    a = self.ev(m_)
                    if isinstance(a, Mask):
                        return Idx(a, 0)
            raise Unrecognised(norm(e)[:80])
        if isinstance(e, ast.Call):
            cn = call_name(e) or ""
            kw = {k.arg: k.value for k in e.keywords}
            if cn in ("np.cumsum", "numpy.cumsum") and len(e.args) == 1:
                a = self.ev(e.args[0])
                if isinstance(a, Durations):
                    return Cum(Lin(), a.src)
            if cn in ("np.insert",) and len(e.args) == 3:
                arr, pos, val = self.ev(e.args[0]), self.ev(e.args[1]), self.ev(e.args[2])
                if isinstance(arr, Cum) and pos == Lin() and isinstance(val, Lin):
                    return Table(val, arr.base, arr.src)
            if cn in ("np.append", "np.concatenate", "np.hstack"):
                parts = e.args if cn == "np.append" else (e.args[0].elts if e.args and isinstance(e.args[0], (ast.Tuple, ast.List)) else [])
                if len(parts) == 2 and isinstance(parts[0], (ast.List, ast.Tuple)) and len(parts[0].elts) == 1:
                    val, arr = self.ev(parts[0].elts[0]), self.ev(parts[1])
                    if isinstance(arr, Cum) and isinstance(val, Lin):
                        return Table(val, arr.base, arr.src)
            if cn in ("np.mod", "np.remainder") and len(e.args) == 2:
                a, b = self.ev(e.args[0]), self.ev(e.args[1])
                if isinstance(a, Lin) and isinstance(b, Lin):
                    return Mod(a, b)
            if cn in ("math.fmod", "np.fmod") and len(e.args) == 2:
                a, b = self.ev(e.args[0]), self.ev(e.args[1])
                if isinstance(a, Lin) and isinstance(b, Lin):
                    return Mod(a, b, "fmod")
            if cn in ("np.argmax",) and len(e.args) == 1:
                a = self.ev(e.args[0])
                if isinstance(a, Mask):
                    return Idx(a, 0)
            if cn in ("itertools.compress", "compress") and len(e.args) == 2 and isinstance(e.args[0], ast.Call) and (call_name(e.args[0]) or "") in ("itertools.count", "count") and not e.args[0].args:
                # compress(count(), mask): the positions where the mask holds, in increasing order
                a = self.ev(e.args[1])
                if isinstance(a, Mask):
                    return ("positions", a)
            if cn == "next" and len(e.args) == 2 and isinstance(e.args[1], ast.Constant) and e.args[1].value == 0:
                # next(<positions where the mask holds>, 0): the first such position, 0 if there is none
                a = self.ev(e.args[0])
                if isinstance(a, tuple) and len(a) == 2 and a[0] == "positions":
                    return Idx(a[1], 0)
            if cn in ("np.searchsorted",) and len(e.args) >= 2:
                tb, v = self.ev(e.args[0]), self.ev(e.args[1])
                side = kw.get("side", e.args[2] if len(e.args) > 2 else ast.Constant(value="left"))
                if isinstance(tb, Table) and isinstance(side, ast.Constant):
                    return Idx(Mask(v, "<" if side.value == "right" else "<=", tb), 0)
            if cn in ("int", "np.int64", "float") and len(e.args) == 1:
                return self.ev(e.args[0])
            raise Unrecognised(norm(e)[:80])
        raise Unrecognised(norm(e)[:80])


# ----------------------------------------------------------------------------- rules


def implied_fact(goal, strict, facts):
    """goal > 0 (strict) / >= 0 follows from one of the facts, over the integers"""
    for l, st in facts or []:
        if l == goal and (st or not strict):
            return True
        if strict and not st and l == goal - Lin({"1": 1}):
            return True
        if not strict and st and l == goal + Lin({"1": 1}):
            return True
    return False


def lookup_case(res, m, f, qn, facts, ret, multi):
    """the rules on one path of get_state_at_time_step (facts: what is known on that path)"""
    where = "" if not multi else " [path: %s]" % ("?" if facts is None else " and ".join("%r %s 0" % (l, ">" if st else ">=") for l, st in facts) or "always")
    shape_ok = isinstance(ret, StateOf) and isinstance(ret.elem, Elem) and isinstance(ret.elem.idx, Idx)
    res.check("CYC-LOOKUP", "the answer is the state of the element selected by a window index", shape_ok, m, f, "returns %r" % (ret,), "the reported state is not that of the cycle element whose window was found", qualname=qn)
    if shape_ok:
        idx = ret.elem.idx
        mask = idx.mask
        res.check("CYC-LOOKUP", "elements are selected from the cycle's own list", ret.elem.src == "elements", m, f, "selects from %s" % ret.elem.src, "the state is taken from another list than the one the windows were computed from", qualname=qn)
        res.check("CYC-LOOKUP", "window test is strict (value < next start): windows are [start, next start)", mask.op == "<", m, f, "mask %r" % (mask,), "a time step exactly at a phase boundary is attributed to the previous phase (or the comparison is reversed)", qualname=qn)
        res.check("CYC-LOOKUP", "index is (first start greater than the value) - 1", idx.shift == -1, m, f, "index %r" % (idx,), "the selected element is off by %d from the window containing the time step" % (idx.shift + 1), qualname=qn)
        tb2 = mask.table
        res.check("CYC-LOOKUP", "the searched table is the table of window starts", isinstance(tb2, Table) and tb2.first == tb2.base and tb2.src == "elements", m, f, "searched table %r" % (tb2,), "the lookup runs on another table than [start, start+d1, ..]", qualname=qn)
        v = mask.value
        if isinstance(v, Mod):
            v = ModPlus(v, Lin())
        if isinstance(v, Lin) and isinstance(tb2, Table):
            # an unreduced time step is the reduced one only while 0 <= t - offset < T holds on this path
            phase = v - tb2.base
            same = phase == Lin({"t": 1, "off": -1})
            lo = implied_fact(Lin({"t": 1, "off": -1}), False, facts)
            hi = implied_fact(Lin({"T": 1, "off": 1, "t": -1}), True, facts)
            res.check("CYC-LOOKUP", "an unreduced time step is used only inside the first period [offset, offset + T)" + where, same and lo and hi, m, f, "value %r searched without reduction%s" % (mask.value, where), "the time step is used without reduction modulo the period on a path that also admits steps %s: those are answered from the wrong window" % ("before the offset" if not lo else "beyond the first period" if not hi else "with another phase"), qualname=qn)
            return
        ok_v = isinstance(v, ModPlus)
        res.check("CYC-LOOKUP", "the searched value is a reduced time step (x mod period) + shift" + where, ok_v, m, f, "value %r%s" % (mask.value, where), "the time step is not reduced modulo the cycle period: later periods (or steps before the offset) are answered wrongly", qualname=qn)
        if ok_v and isinstance(tb2, Table):
            md = v.m
            res.check("CYC-LOOKUP", "reduction uses the floored modulo (result in [0, period) also before the offset)", md.kind == "%", m, f, "reduction %r" % (md,), "fmod keeps the sign of (t - offset): time steps before the offset give a negative value outside every window", qualname=qn)
            res.check("CYC-LOOKUP", "the period is the total duration T", md.b == Lin({"T": 1}), m, f, "period %r" % (md.b,), "the period of the state sequence is not the sum of the durations", qualname=qn)
            res.check("CYC-LOOKUP", "the reduced quantity is (t - offset)", md.a == Lin({"t": 1, "off": -1}), m, f, "reduces %r" % (md.a,), "the phase of the cycle is not counted from the time offset", qualname=qn)
            res.check("CYC-LOOKUP", "value and table are shifted alike", v.shift == tb2.base, m, f, "value shift %r, table base %r" % (v.shift, tb2.base), "the reduced time step and the table of window starts use different origins", qualname=qn)


def run(repo, res, tier):
    res.rule("CYC-TABLE", "table of window starts", 3)
    res.rule("CYC-LOOKUP", "window lookup of the reduced time step", 6)
    res.rule("CYC-DELEGATE", "traffic light asks its cycle", 2)
    res.rule("CYC-FRESH", "the memoised table is refreshed by every setter of the cycle that changes what it is computed from", 2)
    m = repo.mod(T)
    c = m.classes.get("TrafficLightCycle")
    if c is None:
        raise AnalysisError("TrafficLightCycle missing")
    g = c.props.get("cycle_init_timesteps", {}).get("get")
    f = c.methods.get("get_state_at_time_step")
    if g is None or f is None:
        raise AnalysisError("cycle_init_timesteps / get_state_at_time_step missing")
    # the sampled cases first (whatever the code looks like), then the symbolic proof for all values
    from ..strdom import Undecided
    from . import c17ev

    res.rule("CYC-CASES", "get_state_at_time_step answers the state the cycle defines, evaluated on sampled cycles (two colour sequences x three offsets x every time step over two periods, repeated queries, after the setters)", 6)
    cases_refusal = None
    try:
        c17ev.cases_rule(repo, res)
        c17ev.light_rule(repo, res)
    except (Undecided, AnalysisError) as e:
        cases_refusal = str(e)

    def symbolic():
        try:
            tb = Interp(repo, c).table_of_getter(g)
        except Unrecognised as e:
            raise AnalysisError("cycle_init_timesteps uses a construct outside the analysed vocabulary: %s" % e)
        qn = "TrafficLightCycle.cycle_init_timesteps"
        ok = isinstance(tb, Table)
        res.check("CYC-TABLE", "cycle_init_timesteps is a table of cumulative durations with a leading start", ok, m, g, "cycle_init_timesteps = %r" % (tb,), "the table of window starts is not [start, start+d1, .., start+T] of the cycle elements in order", qualname=qn)
        if ok:
            res.check("CYC-TABLE", "table is built from the durations of the cycle's own elements", tb.src == "elements", m, g, "durations from %s" % tb.src, "the windows are not those of the cycle elements", qualname=qn)
            res.check("CYC-TABLE", "the leading entry equals the base of the cumulative sums (first window starts where the table starts)", tb.first == tb.base, m, g, "table %r" % (tb,), "the first window does not start at the base of the cumulative sums: its length differs from the first element's duration", qualname=qn)
            res.check("CYC-TABLE", "the table is anchored at the time offset (or at 0)", tb.base in (Lin({"off": 1}), Lin()), m, g, "table %r" % (tb,), "the table is shifted by something else than the time offset", qualname=qn)
        # lookup
        qn = "TrafficLightCycle.get_state_at_time_step"
        ps = [a.arg for a in f.args.args]
        if len(ps) != 2:
            raise AnalysisError("get_state_at_time_step signature changed")
        ip = Interp(repo, c, tparam=ps[1])
        ret = None
        try:
            for s in f.body:
                if isinstance(s, ast.Return):
                    ret = ip.ev(s.value)
                    break
                ip.exec(s)
        except Unrecognised as e:
            raise AnalysisError("get_state_at_time_step uses a construct outside the analysed vocabulary: %s" % e)
        except CacheMutation as cm:
            res.bad("CYC-FRESH", "get_state_at_time_step leaves the memoised table untouched", Finding("CYC-FRESH", m, cm.node, "get_state_at_time_step: %s updates the memoised table in place" % norm(cm.node), "the table handed out by the getter is the cached object: changing it in place shifts the window starts for every later query, so repeated queries answer differently", qualname=qn))
            ret = "mutated"
        if ret is None:
            raise AnalysisError("get_state_at_time_step has no straight-line return")
        if ret == "mutated":
            ret = Cases([])
        cases = ret.alts if isinstance(ret, Cases) else [([], ret)]
        for facts, rv in cases:
            lookup_case(res, m, f, qn, facts, rv, len(cases) > 1)

    try:
        symbolic()
    except AnalysisError as e:
        if cases_refusal is not None:
            raise AnalysisError("%s; and the evaluation on cases stopped at: %s" % (e, cases_refusal))
        # outside the vocabulary of the term interpreter: the for-all proof is not available, the sampled cases are
        res.rule("CYC-TABLE", "table of window starts", 0)
        res.rule("CYC-LOOKUP", "window lookup of the reduced time step", 0)
        res.note("NOT PROVED FOR ALL VALUES: %s — decided on the sampled cases of CYC-CASES only" % e)
    else:
        if cases_refusal is not None:
            res.rule("CYC-CASES", res.rules["CYC-CASES"], 0)
            res.note("the evaluation on cases stopped (%s); the symbolic rules CYC-TABLE / CYC-LOOKUP decided for all values" % cases_refusal)
    # delegate
    tl = m.classes.get("TrafficLight")
    if tl is None:
        raise AnalysisError("TrafficLight missing")
    d = tl.methods.get("get_state_at_time_step")
    if d is None:
        raise AnalysisError("TrafficLight.get_state_at_time_step missing")
    qn = "TrafficLight.get_state_at_time_step"
    body = [s for s in d.body if not (isinstance(s, ast.Expr) and isinstance(s.value, ast.Constant))]
    tp = [a.arg for a in d.args.args][1]
    rets = [s for s in walk_no_nested(d) if isinstance(s, ast.Return)]
    calls = [r.value for r in rets if isinstance(r.value, ast.Call) and isinstance(r.value.func, ast.Attribute) and r.value.func.attr == "get_state_at_time_step"]
    from ..core import canon as _canon
    from ..dataflow import ReachingDefs as _RD

    drd = _RD(d)
    only_simple = all(isinstance(x, (ast.Return, ast.Assign, ast.AnnAssign)) for x in body)
    plain = len(rets) == 1 and len(calls) == 1 and only_simple
    if plain or cases_refusal is not None:
        res.check("CYC-DELEGATE", "TrafficLight returns its cycle's answer", plain and _canon(calls[0].func.value, drd, rets[0], [tp]) == "self.traffic_light_cycle", m, d, " ; ".join(norm(s) for s in body)[:120], "the traffic light does not report what its cycle reports", qualname=qn)
    else:
        res.note("TrafficLight.get_state_at_time_step is not a plain delegation; decided on the evaluated cases of CYC-DELEGATE only")
    for cl in calls if plain else []:
        res.check("CYC-DELEGATE", "TrafficLight asks about the queried time step", [_canon(a, drd, rets[0], [tp]) for a in cl.args] + [_canon(k.value, drd, rets[0], [tp]) for k in cl.keywords] == [tp], m, cl, norm(cl), "the cycle is asked about another time step", qualname=qn)
    # the table is a memo: the reported state follows the *current* definition only if every mutator refreshes it
    from . import c11

    eng = c11.Engine(repo, res)
    memo = [k for k in c11.discover(repo) if k.cls is c]
    if not memo:
        res.note("the table of window starts is recomputed on every query (no memo found)")
    for cache in memo:
        for pn, pd in c.props.items():
            if "set" not in pd:
                continue
            fk = FnKey(c, pd["set"], m, "set")
            verdict, w, dirty = eng.detail(cache, fk)
            res.check("CYC-FRESH", "%s[set] leaves %s fresh (%s)" % (pn, cache.name, verdict), verdict != "DIRTY", m, pd["set"], "TrafficLightCycle.%s setter changes what %s is computed from without refreshing it" % (pn, cache.name), "after the assignment the reported states still follow the old cycle definition", qualname="TrafficLightCycle.%s[set]" % pn)
    res.note("decided: the implementation is an instance of the table-lookup scheme and its symbolic value equals the specification; assumes positive integer durations and numpy semantics of cumsum / insert / argmax on a boolean mask with at least one True entry (guaranteed because the reduced value is < start + T = last table entry)")

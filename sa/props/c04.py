"""C04 — obstacle occupancy is the shape placed at the state, for every time step.

Decides the structural, necessary part of the property (not the numbers):

OCC-PROTOCOL  every attribute used on an element of Scenario.obstacles / dynamic_obstacles / ... (typed by the getter
              annotations) is defined by every class the element may have, or guarded by hasattr/isinstance
OCC-SETTER    in the anchored classes a property setter stores an attribute its getter loads
OCC-PLACE     occupancy_shape_from_state, evaluated (c04ev.place_rules): exact states give
              shape.rotate_translate_local(state.position, state.orientation); uncertain states a rectangle centred
              at the position, oriented at the reference orientation, measured in the reference frame, whose
              extracted length / width terms dominate what enclosing every admissible placement needs (compared on
              sample assignments); Polygon.rotate_translate_local turns about the polygon's centre; derived headings
              are atan2(velocity_y, velocity); the initial_state setter (evaluated) and the per-state occupancies are
              computed from the state they are stored / stamped with; static / environment occupancies ignore time
OCC-DISPATCH  DynamicObstacle.occupancy_at_time / state_at_time: initial answer exactly at the initial time step,
              delegation to the prediction only for later steps with a prediction, same time step passed on,
              None otherwise; Prediction.occupancy_at_time_step returns an element only under a time-step match;
              Trajectory.state_at_time_step indexes with (t - initial) under guards that imply 0 <= index < len
OCC-SCENARIO  scenario-level queries call the per-obstacle answer with the queried time step, pair ids / obstacles
              with the answers of the same loop element, iterate the registry that holds the requested role
"""
import ast

from ..classfacts import ctor_model
from ..core import AnalysisError, Finding, attr_chain, call_name, canon, dominating_guards, norm, walk_no_nested
from ..dataflow import ReachingDefs
from ..effects import Effects, FnKey, type_names

O = "commonroad/scenario/obstacle.py"
P = "commonroad/prediction/prediction.py"
SH = "commonroad/geometry/shape.py"
T = "commonroad/scenario/trajectory.py"
S = "commonroad/scenario/scenario.py"
ST = "commonroad/scenario/state.py"
L = "commonroad/scenario/lanelet.py"
ANCHOR_FILES = [O, P, SH, T, S]
OBSTACLE_CLASSES = ["Obstacle", "StaticObstacle", "DynamicObstacle", "PhantomObstacle", "EnvironmentObstacle"]


# --------------------------------------------------------------------------- helpers


def defined_names(repo, cls):
    """names an instance of cls answers to: methods, properties, class-level names, constructor attributes"""
    out = set()
    for c in repo.mro(cls):
        out |= set(c.methods) | set(c.props) | set(c.annotations) | set(c.class_assigns)
        try:
            cm = ctor_model(repo, c)
            out |= set(cm.attributes())
        except Exception:
            pass
        init = c.methods.get("__init__")
        if init is not None:
            for n in walk_no_nested(init):
                if isinstance(n, ast.Attribute) and isinstance(n.ctx, ast.Store) and norm(n.value) == "self":
                    out.add(n.attr)
    return out


def linear(e, atoms):
    """expression -> {atom text: coefficient} (+ '1' for constants); None if not linear over recognised atoms"""
    if isinstance(e, ast.Constant) and isinstance(e.value, (int, float)) and not isinstance(e.value, bool):
        return {"1": e.value} if e.value else {}
    if isinstance(e, ast.BinOp) and isinstance(e.op, (ast.Add, ast.Sub)):
        a, b = linear(e.left, atoms), linear(e.right, atoms)
        if a is None or b is None:
            return None
        out = dict(a)
        sgn = 1 if isinstance(e.op, ast.Add) else -1
        for k, v in b.items():
            out[k] = out.get(k, 0) + sgn * v
        return {k: v for k, v in out.items() if v}
    if isinstance(e, ast.UnaryOp) and isinstance(e.op, ast.USub):
        a = linear(e.operand, atoms)
        return None if a is None else {k: -v for k, v in a.items()}
    t = atoms(e)
    return {t: 1} if t is not None else None


def lin_sub(a, b):
    out = dict(a)
    for k, v in b.items():
        out[k] = out.get(k, 0) - v
    return {k: v for k, v in out.items() if v}


def inequalities(test, pol, atoms):
    """guard -> list of (linear form, strict) meaning form > 0 (strict) or form >= 0"""
    out = []
    if not isinstance(test, ast.Compare):
        return out
    operands = [test.left] + list(test.comparators)
    for (a, op, b) in zip(operands, test.ops, operands[1:]):
        la, lb = linear(a, atoms), linear(b, atoms)
        if la is None or lb is None:
            continue
        kind = type(op)
        if not pol:
            if len(test.ops) != 1:
                continue
            kind = {ast.Lt: ast.GtE, ast.LtE: ast.Gt, ast.Gt: ast.LtE, ast.GtE: ast.Lt}.get(kind)
        if kind is ast.Lt:
            out.append((lin_sub(lb, la), True))
        elif kind is ast.LtE:
            out.append((lin_sub(lb, la), False))
        elif kind is ast.Gt:
            out.append((lin_sub(la, lb), True))
        elif kind is ast.GtE:
            out.append((lin_sub(la, lb), False))
    return out


def implied(goal, strict, facts):
    """is `goal > 0` (strict) / `goal >= 0` implied by one of the facts over the integers"""
    for f, fs in facts:
        if f == goal and (fs or not strict):
            return True
        # integers: f > 0  <=>  f - 1 >= 0 ; f >= 0 <=> f + 1 > 0
        g1 = dict(goal)
        if strict and not fs:
            # need goal > 0 from f >= 0 with f == goal - 1  (goal - 1 >= 0)
            g1["1"] = g1.get("1", 0) - 1
            if {k: v for k, v in g1.items() if v} == f:
                return True
        if not strict and fs:
            g1["1"] = g1.get("1", 0) + 1
            if {k: v for k, v in g1.items() if v} == f:
                return True
    return False


class Ctx:
    def __init__(self, repo, res):
        self.repo, self.res = repo, res
        self.eff = Effects(repo)

    def fn(self, rel, cls, name, kind=None):
        m = self.repo.mod(rel)
        if cls is None:
            f = m.functions.get(name)
            if f is None:
                raise AnalysisError("anchor function missing: %s:%s" % (rel, name))
            return FnKey(None, f, m, "func")
        c = m.classes.get(cls)
        if c is None:
            raise AnalysisError("anchor class missing: %s:%s" % (rel, cls))
        if kind in ("get", "set"):
            p = c.props.get(name)
            if p is None or kind not in p:
                raise AnalysisError("anchor property missing: %s:%s.%s[%s]" % (rel, cls, name, kind))
            return FnKey(c, p[kind], m, kind)
        f = c.methods.get(name)
        if f is None:
            raise AnalysisError("anchor method missing: %s:%s.%s" % (rel, cls, name))
        return FnKey(c, f, m)


# --------------------------------------------------------------------------- OCC-PROTOCOL


def protocol(cx):
    repo, res, eff = cx.repo, cx.res, cx.eff
    obst = {}
    for n in OBSTACLE_CLASSES:
        c = repo.mod(O).classes.get(n)
        if c is None:
            raise AnalysisError("obstacle class %s missing" % n)
        obst[n] = c
    scopes = []
    sm = repo.mod(S)
    sc = sm.classes.get("Scenario")
    if sc is None:
        raise AnalysisError("Scenario class missing")
    for name, f in sc.methods.items():
        scopes.append(FnKey(sc, f, sm))
    for p, d in sc.props.items():
        if "get" in d:
            scopes.append(FnKey(sc, d["get"], sm, "get"))
    lm = repo.mod(L)
    scopes.append(cx.fn(L, "Lanelet", "get_obstacles"))
    loops = 0
    for fk in scopes:
        binders = []  # (var name, iter expr, scope node)
        for n in ast.walk(fk.fn):
            if isinstance(n, ast.For) and isinstance(n.target, ast.Name):
                binders.append((n.target.id, n.iter, n))
            elif isinstance(n, (ast.ListComp, ast.SetComp, ast.GeneratorExp, ast.DictComp)):
                for g in n.generators:
                    if isinstance(g.target, ast.Name):
                        binders.append((g.target.id, g.iter, n))
        for var, it, scope in binders:
            classes = [c for c in eff.receiver_classes(fk, it) if c.name in obst]
            if not classes:
                continue
            loops += 1
            uses = [a for a in ast.walk(scope) if isinstance(a, ast.Attribute) and isinstance(a.value, ast.Name) and a.value.id == var and isinstance(a.ctx, ast.Load)]
            seen = set()
            for a in uses:
                guards = dominating_guards(fk.mod, a, stop=fk.fn)
                allowed = list(classes)
                has_guard = False
                for t, pol in guards:
                    if pol and isinstance(t, ast.Call) and call_name(t) == "hasattr" and len(t.args) == 2 and norm(t.args[0]) == var and isinstance(t.args[1], ast.Constant) and t.args[1].value == a.attr:
                        has_guard = True
                    if pol and isinstance(t, ast.Call) and call_name(t) == "isinstance" and len(t.args) == 2 and norm(t.args[0]) == var:
                        names = set(type_names(t.args[1]))
                        allowed = [c for c in allowed if any(b.name in names for b in repo.mro(c))] or allowed
                    if pol and isinstance(t, ast.Compare) and len(t.ops) == 1 and isinstance(t.ops[0], ast.Is) and call_name(t.left) == "type" and norm(t.left.args[0]) == var:
                        names = set(type_names(t.comparators[0]))
                        allowed = [c for c in allowed if c.name in names] or allowed
                missing = [c.name for c in allowed if a.attr not in defined_names(repo, c) and not any(a.attr in defined_names(repo, sc2) for sc2 in [])]
                key = (a.attr, tuple(missing), has_guard)
                if key in seen:
                    continue
                seen.add(key)
                res.check("OCC-PROTOCOL", "%s: %s.%s on elements of %s (%s)" % (fk.name, var, a.attr, norm(it), ",".join(c.name for c in allowed)), has_guard or not missing, fk.mod, a,
                          "%s.%s for %s in %s" % (var, a.attr, var, norm(it)), "%s is not defined by %s, which %s may contain: the query raises AttributeError for such a scenario" % (a.attr, ", ".join(missing), norm(it)), qualname=fk.name)
    res.note("loops over obstacle collections examined: %d" % loops)
    if loops < 12:
        raise AnalysisError("only %d loops over obstacle collections found (12 confirmed by hand)" % loops)


# --------------------------------------------------------------------------- OCC-SETTER


def setters(cx):
    repo, res = cx.repo, cx.res
    n = 0
    for rel in ANCHOR_FILES + [L, ST, "commonroad/planning/goal.py", "commonroad/planning/planning_problem.py", "commonroad/scenario/traffic_light.py", "commonroad/scenario/traffic_sign.py", "commonroad/scenario/intersection.py", "commonroad/scenario/area.py"]:
        m = repo.mod(rel)
        for c in m.classes.values():
            for pname, d in c.props.items():
                if "get" not in d or "set" not in d:
                    continue
                g, s = d["get"], d["set"]
                loads = {x.attr for x in walk_no_nested(g) if isinstance(x, ast.Attribute) and norm(x.value) == "self" and isinstance(x.ctx, ast.Load)}
                stores = {x.attr for x in walk_no_nested(s) if isinstance(x, ast.Attribute) and norm(x.value) == "self" and isinstance(x.ctx, ast.Store)}
                for x in walk_no_nested(s):
                    if isinstance(x, ast.Call) and call_name(x) == "setattr" and len(x.args) >= 2 and norm(x.args[0]) == "self" and isinstance(x.args[1], ast.Constant):
                        stores.add(x.args[1].value)
                if not stores or not loads:
                    continue  # delegating / computed property
                n += 1
                ok = bool(stores & loads)
                res.check("OCC-SETTER", "%s.%s: setter stores %s, getter loads %s" % (c.name, pname, sorted(stores), sorted(loads)), ok, m, s,
                          "%s.%s setter stores %s but the getter reads %s" % (c.name, pname, sorted(stores), sorted(loads)), "a value assigned through the property is never seen by its readers", qualname="%s.%s[set]" % (c.name, pname))
    if n < 100:
        raise AnalysisError("only %d getter/setter pairs found" % n)


# --------------------------------------------------------------------------- OCC-PLACE


def place(cx):
    repo, res = cx.repo, cx.res
    # 1. occupancy_shape_from_state: decided by abstract evaluation (c04ev.place_rules) — exact placement, and for
    # uncertain states centre, reference orientation, reference frame of the position region and enclosure
    from . import c04ev as _c04ev

    _c04ev.place_rules(repo, res, "OCC-PLACE")
    # signature roles of rotate_translate_local
    for cname in ("Shape", "Rectangle", "Circle", "Polygon", "ShapeGroup"):
        c = repo.mod(SH).classes.get(cname)
        if c is None:
            raise AnalysisError("shape class %s missing" % cname)
        f = c.methods.get("rotate_translate_local")
        if f is None:
            continue
        ps = [a.arg for a in f.args.args][1:]
        res.check("OCC-PLACE", "%s.rotate_translate_local(translation, angle) parameter order" % cname, len(ps) == 2 and "transl" in ps[0] and "angle" in ps[1], c.mod, f, "%s.rotate_translate_local(%s)" % (cname, ", ".join(ps)), "position and orientation arrive in the wrong roles", qualname="%s.rotate_translate_local" % cname)
    _polygon_pivot(repo, res)
    # 2. headings from velocity components (arguments canonicalised: locals and unpacked values inlined)
    from ..flowtools import mentions

    n = 0
    for rel in sorted(repo.modules):
        if not rel.startswith("commonroad/") or "/visualization/" in rel:
            continue
        m = repo.modules[rel]
        for fdef in [x for x in ast.walk(m.tree) if isinstance(x, ast.FunctionDef)]:
            frd = None
            for c in walk_no_nested(fdef):
                if isinstance(c, ast.Call) and call_name(c) in ("math.atan2", "np.arctan2", "numpy.arctan2", "atan2") and len(c.args) == 2:
                    frd = frd or ReachingDefs(fdef)
                    a0, a1 = [canon(x, frd, frd.stmt_of(c), []) for x in c.args]
                    if not any(mentions(t, "velocity") or mentions(t, "velocity_y") for t in (a0, a1)):
                        continue
                    n += 1
                    ok = mentions(a0, "velocity_y") and not mentions(a1, "velocity_y") and mentions(a1, "velocity")
                    res.check("OCC-PLACE", "heading = atan2(velocity_y, velocity) at %s:%s" % (rel, m.qualname(c)), ok, m, c, norm(c), "the heading of a point-mass state is computed with swapped velocity components")
    if n < 3:
        raise AnalysisError("only %d heading computations found (3 confirmed by hand)" % n)
    # 3. initial occupancy is computed from the state being stored
    # 3. the initial_state setter: decided by abstract evaluation (c04ev.initial_state_rule)
    _c04ev.initial_state_rule(repo, res, "OCC-PLACE")
    # 4. per-state occupancies of a trajectory prediction: decided by abstract evaluation (c04ev)
    from . import c04ev

    c04ev.occupancy_set_rule(repo, res)
    # 5. time-independent occupancies: decided by abstract evaluation
    c04ev.time_independent_rule(repo, res, "OCC-PLACE")


# --------------------------------------------------------------------------- OCC-DISPATCH


def dispatch(cx):
    """Rules on (condition -> answer) pairs, independent of how the method is laid out (early returns or a result
    variable, hoisted locals, private fields or getters)."""
    from ..flowtools import guards_not_none, is_none, result_cases

    repo, res = cx.repo, cx.res
    init_ts = "self.initial_state.time_step"
    for meth, delegate in (("occupancy_at_time", "occupancy_at_time_step"), ("state_at_time", "state_at_time_step")):
        fk = cx.fn(O, "DynamicObstacle", meth)
        tp = [a.arg for a in fk.fn.args.args][1]
        rd = ReachingDefs(fk.fn)

        def atoms(e):
            t = norm(e)
            return t if t in (tp, init_ts) else None

        cases = result_cases(fk.mod, fk.fn, rd, [tp])
        kinds = {"initial": 0, "delegate": 0, "none": 0}
        for c in cases:
            txt = c.text(rd, [tp])
            gtxt = sorted(("" if p else "not ") + t for t, p, _n in c.guards)
            v = c.value
            # through a conditional expression etc. we do not look: classify by the canonical text
            if is_none(v):
                kinds["none"] += 1
                continue
            vc = ast.parse(txt, mode="eval").body
            is_initial = txt == "self.initial_state" if meth == "state_at_time" else (isinstance(vc, ast.Call) and call_name(vc) == "Occupancy" and sorted([norm(a) for a in vc.args] + [norm(k.value) for k in vc.keywords]) == sorted([tp, "self.initial_occupancy_shape"]))
            is_delegate = isinstance(vc, ast.Call) and isinstance(vc.func, ast.Attribute) and vc.func.attr == delegate
            if is_initial:
                kinds["initial"] += 1
                eq = any(p and isinstance(n, ast.Compare) and len(n.ops) == 1 and isinstance(n.ops[0], ast.Eq) and {norm(n.left), norm(n.comparators[0])} == {tp, init_ts} for _t, p, n in c.guards)
                if meth == "occupancy_at_time":
                    a0 = (vc.args[0] if vc.args else [k.value for k in vc.keywords if k.arg == "time_step"][0])
                    eq = eq and norm(a0) == tp
                res.check("OCC-DISPATCH", "%s answers the initial data exactly at the initial time step" % meth, eq, fk.mod, c.stmt, "%s: %s under %s" % (meth, txt, gtxt), "the initial state / occupancy is returned for other time steps than the initial one (or stamped with another time step)", qualname=fk.name)
            elif is_delegate:
                kinds["delegate"] += 1
                args = [norm(a) for a in vc.args] + [norm(k.value) for k in vc.keywords]
                res.check("OCC-DISPATCH", "%s passes the queried time step to the prediction" % meth, args == [tp], fk.mod, c.stmt, txt, "the prediction is asked about another time step than the one queried", qualname=fk.name)
                facts = []
                for _t, p, n in c.guards:
                    facts += inequalities(n, p, atoms)
                later = implied({tp: 1, init_ts: -1}, True, facts)
                res.check("OCC-DISPATCH", "%s consults the prediction only for t > initial time step" % meth, later, fk.mod, c.stmt, "%s under %s" % (txt, gtxt), "the prediction is consulted at or before the initial time step (or the guard was lost)", qualname=fk.name)
                nn = guards_not_none(c.guards, "self.prediction")
                res.check("OCC-DISPATCH", "%s consults the prediction only if there is one" % meth, nn, fk.mod, c.stmt, "%s under %s" % (txt, gtxt), "an obstacle without prediction raises instead of answering None", qualname=fk.name)
            else:
                res.bad("OCC-DISPATCH", "%s: unexpected answer" % meth, Finding("OCC-DISPATCH", fk.mod, c.stmt, "%s returns %s under %s" % (meth, txt[:80], gtxt), "the answer is neither the initial data, the prediction's answer for the same time step, nor None", qualname=fk.name))
        res.check("OCC-DISPATCH", "DynamicObstacle.%s has an initial answer" % meth, kinds["initial"] >= 1, fk.mod, fk.fn, "%s: %s" % (meth, kinds), "the initial state / occupancy is never returned", qualname=fk.name)
        res.check("OCC-DISPATCH", "DynamicObstacle.%s delegates to %s" % (meth, delegate), kinds["delegate"] >= 1, fk.mod, fk.fn, "%s: %s" % (meth, kinds), "later time steps are not answered by the prediction", qualname=fk.name)
        res.check("OCC-DISPATCH", "DynamicObstacle.%s answers None otherwise" % meth, kinds["none"] >= 1, fk.mod, fk.fn, "%s: %s" % (meth, kinds), "outside the horizon something else than None is returned", qualname=fk.name)
    # every time-step lookup of the prediction / trajectory classes (base implementations and overrides)
    n_lookup = 0
    for rel, meth, lists in ((P, "occupancy_at_time_step", ("self.occupancy_set",)), (T, "state_at_time_step", ("self.state_list",))):
        mod = repo.mod(rel)
        for c in mod.classes.values():
            f = c.methods.get(meth)
            if f is None or (len(f.body) <= 2 and all(isinstance(x, (ast.Pass, ast.Expr)) for x in f.body)):
                continue
            n_lookup += 1
            rd_ = ReachingDefs(f)
            indexed = any(isinstance(n, ast.Subscript) and isinstance(n.ctx, ast.Load) and canon(n.value, rd_, rd_.stmt_of(n), []) in lists for n in walk_no_nested(f))
            if rel == P and not indexed:
                # search form: decided by abstract evaluation; index form: by guard implication over linear forms
                from . import c04ev

                c04ev.prediction_lookup_rule(repo, res, c, f)
            else:
                lookup_rule(cx, FnKey(c, f, mod), lists)
    if n_lookup < 2:
        raise AnalysisError("only %d time-step lookup methods found (2 confirmed)" % n_lookup)


def lookup_rule(cx, fk, lists):
    """A lookup by time step either searches the list and returns an element only under a time-step match, or indexes
    it with (t - initial time step) under guards that imply 0 <= index < len."""
    res = cx.res
    tp = [a.arg for a in fk.fn.args.args][1]
    rd = ReachingDefs(fk.fn)
    loops = [n for n in walk_no_nested(fk.fn) if isinstance(n, ast.For) and canon(n.iter, rd, n, []) in lists]
    subs = [n for n in walk_no_nested(fk.fn) if isinstance(n, ast.Subscript) and isinstance(n.ctx, ast.Load) and canon(n.value, rd, rd.stmt_of(n), []) in lists]
    res.check("OCC-DISPATCH", "%s searches or indexes %s" % (fk.name, "/".join(lists)), bool(loops) or bool(subs), fk.mod, fk.fn, "%s: no loop over / subscript of %s" % (fk.name, lists), "the answer is not taken from the stored list", qualname=fk.name)
    for lp in loops:
        lv = norm(lp.target)
        rets = [r for r in ast.walk(lp) if isinstance(r, ast.Return)]
        res.check("OCC-DISPATCH", "%s returns from the search" % fk.name, len(rets) >= 1, fk.mod, lp, "no return in the loop", "a stored element is never returned", qualname=fk.name)
        for r in rets:
            guards = dominating_guards(fk.mod, r, stop=fk.fn)
            match = False
            for t, pol in guards:
                if not pol:
                    continue
                if isinstance(t, ast.Compare) and len(t.ops) == 1 and isinstance(t.ops[0], ast.Eq) and {norm(t.left), norm(t.comparators[0])} == {"%s.time_step" % lv, tp}:
                    match = True
                if isinstance(t, ast.Call) and isinstance(t.func, ast.Attribute) and t.func.attr in ("contains", "__contains__") and norm(t.func.value) == "%s.time_step" % lv and [norm(a) for a in t.args] == [tp]:
                    match = True
            res.check("OCC-DISPATCH", "a stored element is returned only if its time step matches", match and norm(r.value) == lv, fk.mod, r, "%s under %s" % (norm(r), sorted(("" if p else "not ") + norm(t) for t, p in guards)), "an element of another time step is returned", qualname=fk.name)

    def atoms2(e):
        t = canon(e, rd, None, [tp])
        if t == tp:
            return "t"
        if t in ("self.initial_time_step", "self.trajectory.initial_time_step"):
            return "t0"
        if t in tuple("len(%s)" % l for l in lists):
            return "n"
        return None

    for s in subs:
        idx = linear(ast.parse(canon(s.slice, rd, rd.stmt_of(s), [tp]), mode="eval").body, atoms2)
        ok = idx == {"t": 1, "t0": -1}
        res.check("OCC-DISPATCH", "%s: index is (t - initial time step)" % fk.name, ok, fk.mod, s, norm(s), "the element at another offset than (t - initial time step) is returned: element and time step are mispaired", qualname=fk.name)
        guards = dominating_guards(fk.mod, s, stop=fk.fn)
        facts = []
        for t, pol in guards:
            facts += inequalities(ast.parse(canon(t, rd, rd.stmt_of(s), [tp]), mode="eval").body, pol, atoms2)
        if idx is not None:
            lo = implied(idx, False, facts)
            hi = implied(lin_sub({"n": 1}, idx), True, facts)
            res.check("OCC-DISPATCH", "%s: index guarded from below (t >= initial)" % fk.name, lo, fk.mod, s, "%s under %s" % (norm(s), sorted(norm(t) for t, _p in guards)), "a time step before the horizon wraps around to an element from the end (negative index) instead of None", qualname=fk.name)
            res.check("OCC-DISPATCH", "%s: index guarded from above (t - initial < len)" % fk.name, hi, fk.mod, s, "%s under %s" % (norm(s), sorted(norm(t) for t, _p in guards)), "a time step after the horizon raises IndexError instead of None", qualname=fk.name)
    # default answer: None on the fall-through path (or of the returned variable)
    last = fk.fn.body[-1]
    ok = isinstance(last, ast.Return) and (last.value is None or (isinstance(last.value, ast.Constant) and last.value.value is None))
    if not ok and isinstance(last, ast.Return) and isinstance(last.value, ast.Name):
        inits = [st for st in fk.fn.body if isinstance(st, ast.Assign) and norm(st.targets[0]) == last.value.id]
        ok = bool(inits) and isinstance(inits[0].value, ast.Constant) and inits[0].value.value is None
    if not ok:
        # an early `return None` for steps outside the horizon followed by the indexed return: every way out is either
        # None or the element at the guarded index (whose guards are checked above)
        from ..flowtools import result_cases as _rc

        cases = _rc(fk.mod, fk.fn, rd, [tp])
        if cases and any(c.value is None or (isinstance(c.value, ast.Constant) and c.value.value is None) for c in cases):
            ok = all(c.value is None or (isinstance(c.value, ast.Constant) and c.value.value is None) or any(x in subs for x in ast.walk(c.value)) for c in cases)
    res.check("OCC-DISPATCH", "%s answers None when no time step matches" % fk.name, ok, fk.mod, last, norm(last), "outside the horizon something else than None is returned", qualname=fk.name)


# --------------------------------------------------------------------------- OCC-SCENARIO


def role_of_class(cx, cname):
    """role constant the constructor of an obstacle class establishes"""
    c = cx.repo.mod(O).classes[cname]
    init = c.methods.get("__init__")
    roles = set()
    if init is not None:
        for n in ast.walk(init):
            ch = attr_chain(n) if isinstance(n, ast.Attribute) else None
            if ch and len(ch) == 2 and ch[0] == "ObstacleRole":
                roles.add(ch[1])
    return roles


def scenario(cx):
    repo, res, eff = cx.repo, cx.res, cx.eff
    sm = repo.mod(S)
    sc = sm.classes["Scenario"]
    # registry getter -> element class -> role
    reg_role = {}
    for p, d in sc.props.items():
        g = d.get("get")
        if g is None or g.returns is None:
            continue
        names = [n for n in type_names(g.returns) if n in OBSTACLE_CLASSES]
        if len(names) == 1 and names[0] != "Obstacle":
            roles = role_of_class(cx, names[0])
            if len(roles) == 1:
                reg_role[p] = (names[0], next(iter(roles)))
    res.check("OCC-SCENARIO", "four role registries with element class and role (%s)" % sorted(reg_role.items()), len(reg_role) == 4, sm, sc.node, "role registries %s" % sorted(reg_role), "cannot derive which registry holds which role")
    # Scenario.obstacles is the union of all four registries
    fk = cx.fn(S, "Scenario", "obstacles", "get")
    stores = set()
    for p, (cn, _r) in reg_role.items():
        g = sc.props[p]["get"]
        for n in ast.walk(g):
            if isinstance(n, ast.Attribute) and norm(n.value) == "self":
                stores.add(n.attr)
    used = {n.attr for n in ast.walk(fk.fn) if isinstance(n, ast.Attribute) and norm(n.value) == "self"}
    res.check("OCC-SCENARIO", "Scenario.obstacles covers all registries %s" % sorted(stores), stores <= used, fk.mod, fk.fn, "Scenario.obstacles reads %s" % sorted(used), "obstacles of role(s) stored in %s are missing from Scenario.obstacles and hence from every query over it" % sorted(stores - used), qualname=fk.name)

    # occupancies_at_time_step, obstacle_states_at_time_step, obstacles_by_role_and_type: decided by abstract
    # evaluation on a scenario with one obstacle of every role (c04ev)
    from . import c04ev

    c04ev.scenario_query_rules(repo, res)

    # obstacles_by_position_intervals  (layout independent: loops or comprehensions, inline tests or nested predicates)
    fk = cx.fn(S, "Scenario", "obstacles_by_position_intervals")
    tp = "time_step"
    n_br = 0

    def iterations(node):
        out = []
        for n in ast.walk(node):
            if isinstance(n, ast.For):
                out.append((n.target, n.iter, n))
            elif isinstance(n, (ast.ListComp, ast.SetComp, ast.GeneratorExp)):
                for g in n.generators:
                    out.append((g.target, g.iter, n))
        return out

    for iff in [n for n in walk_no_nested(fk.fn) if isinstance(n, ast.If)]:
        t = iff.test
        if isinstance(t, ast.Compare) and len(t.ops) == 1 and isinstance(t.ops[0], ast.In):
            ch = attr_chain(t.left)
            if ch and len(ch) == 2 and ch[0] == "ObstacleRole":
                role = ch[1]
                n_br += 1
                body = ast.Module(body=iff.body, type_ignores=[])
                its = iterations(body)
                want = sorted(p for p, (_c, r) in reg_role.items() if r == role)
                got = sorted({canon(it, None, None, []).replace("self.", "") for _t, it, _n in its})
                res.check("OCC-SCENARIO", "position filter: role %s iterates registry %s" % (role, want), got == want, fk.mod, iff, "if %s: iterates %s" % (norm(t), got), "the obstacles inspected for role %s are those of another role" % role, qualname=fk.name)
                vars_ = {norm(tg) for tg, _i, _n in its}
                for c in ast.walk(body):
                    if isinstance(c, ast.Call) and isinstance(c.func, ast.Attribute) and c.func.attr == "append":
                        res.check("OCC-SCENARIO", "position filter returns the obstacle it tested", len(c.args) == 1 and norm(c.args[0]) in vars_, fk.mod, c, norm(c), "something else than the tested obstacle is returned", qualname=fk.name)
                    if isinstance(c, ast.Call) and isinstance(c.func, ast.Attribute) and c.func.attr == "extend" and c.args and isinstance(c.args[0], (ast.GeneratorExp, ast.ListComp)):
                        g = c.args[0]
                        res.check("OCC-SCENARIO", "position filter returns the obstacle it tested", norm(g.elt) == norm(g.generators[0].target), fk.mod, c, norm(c)[:100], "something else than the tested obstacle is returned", qualname=fk.name)
    res.check("OCC-SCENARIO", "position filter has one branch per role", n_br == len(reg_role), fk.mod, fk.fn, "%d role branches" % n_br, "a role cannot be filtered by position", qualname=fk.name)
    occ_calls = [c for c in ast.walk(fk.fn) if isinstance(c, ast.Call) and isinstance(c.func, ast.Attribute) and c.func.attr == "occupancy_at_time"]
    res.check("OCC-SCENARIO", "position filter consults the occupancy of the obstacles", len(occ_calls) >= 1, fk.mod, fk.fn, "%d occupancy_at_time calls" % len(occ_calls), "positions of moving obstacles are not taken from their occupancy", qualname=fk.name)
    for c in occ_calls:
        res.check("OCC-SCENARIO", "position filter asks the occupancy at the queried time step", [norm(a) for a in c.args] + [norm(k.value) for k in c.keywords] == [tp], fk.mod, c, norm(c), "the position is taken at another time step than requested", qualname=fk.name)
    # the interval predicate pairs x with interval 0 and y with interval 1 (wherever it is written)
    holders = [f for f in ast.walk(fk.fn) if isinstance(f, ast.FunctionDef) and any(isinstance(x, ast.Subscript) and norm(x.value) == "position_intervals" for x in walk_no_nested(f))]
    res.check("OCC-SCENARIO", "one place tests coordinates against the intervals", len(holders) == 1, fk.mod, fk.fn, "%d functions read position_intervals" % len(holders), "the interval test is missing or duplicated inconsistently", qualname=fk.name)
    for f in holders:
        calls = [c for c in walk_no_nested(f) if isinstance(c, ast.Call) and isinstance(c.func, ast.Attribute) and c.func.attr in ("contains", "__contains__")]
        pairs = sorted((norm(c.func.value), norm(c.args[0])) for c in calls if c.args)
        coord = {p[1].split("[")[0] for p in pairs}
        ok = len(coord) == 1 and pairs == [("position_intervals[0]", "%s[0]" % next(iter(coord))), ("position_intervals[1]", "%s[1]" % next(iter(coord)))]
        res.check("OCC-SCENARIO", "interval i is tested against coordinate i", ok, fk.mod, f, "contains pairs %s" % pairs, "x is tested against the y interval or vice versa", qualname=fk.name)
        # both must hold: a conjunction, or nested ifs / early `return False` per coordinate
        conj = [n for n in walk_no_nested(f) if isinstance(n, ast.BoolOp) and sum(1 for c in calls if any(c is x for x in ast.walk(n))) == 2]
        if conj:
            ok = all(isinstance(n.op, ast.And) for n in conj)
        else:
            from ..flowtools import result_cases as _rc
            rdf = ReachingDefs(f)
            ok = True
            for cs in _rc(fk.mod, f, rdf, []):
                if isinstance(cs.value, ast.Constant) and cs.value.value is True:
                    pos = [t for t, p, _n in cs.guards if p]
                    ok = ok and sum(1 for c in calls if any(norm(c) in t for t in pos)) == 2
        res.check("OCC-SCENARIO", "both coordinates must be inside", ok, fk.mod, f, "predicate of %s" % f.name, "one coordinate inside its interval suffices", qualname=fk.name)






def _polygon_pivot(repo, res):
    """Polygon.rotate_translate_local, evaluated with symbolic vertices: the polygon is turned by the given angle (in
    radians) about the point its `center` property reports — the centroid — and then moved by the translation.  The
    shapely interface is the fixed part: affinity.rotate(geom, angle, origin, use_radians) with origin 'centroid' /
    'center' (bounding box) / a point."""
    from ..strdom import Ctor, Ev, Obj, Str, Sym, Term, Undecided, _Raise, show

    poly = repo.cls(SH, "Polygon")
    fn = poly.methods.get("rotate_translate_local")
    if fn is None:
        raise AnalysisError("Polygon.rotate_translate_local missing")
    qn = "Polygon.rotate_translate_local"
    ev = Ev(repo)
    ev.pure_modules = {"np", "numpy", "math", "shapely"}
    ev.assume_valid = True
    V, tr, an = Sym("vertices", "num"), Sym("translation", "num"), Sym("angle", "num")
    G = Ctor("shapely.geometry.Polygon", {"arg0": V}, kind="call")
    me = Obj(poly, {"_vertices": V, "_shapely_polygon": G}, label="polygon")

    def chain(v):
        out = []
        while isinstance(v, Ctor) and v.args:
            out.append(v.name)
            v = list(v.args.values())[0]
        return out, v

    bad = None
    try:
        centre = ev.getattr(me, "center", poly.node, poly.mod)
        names, leaf = chain(centre)
        centre_is_centroid = ".centroid" in names and leaf is V
        if not centre_is_centroid:
            raise Undecided("Polygon.center is %s" % show(centre))
        r = ev.call_fn(ev.bind(fn, poly, me), [tr, an], {}, fn)
        verts = list(r.args.values())[0] if isinstance(r, Ctor) and r.name == "Polygon" and r.args else None
        moved = None
        if isinstance(verts, Term) and verts.op == "+" and any(x is tr for x in verts.args):
            moved = [x for x in verts.args if x is not tr][0]
        if moved is None:
            raise Undecided("the result is %s" % show(r))
        names, leaf = chain(moved)
        rot = moved
        while isinstance(rot, Ctor) and not rot.name.endswith("affinity.rotate") and rot.args:
            rot = list(rot.args.values())[0]
        if not (isinstance(rot, Ctor) and rot.name.endswith("affinity.rotate")):
            raise Undecided("the moved vertices are %s" % show(moved))
        a = rot.args
        geom, angle = a.get("geom", a.get("arg0")), a.get("angle", a.get("arg1"))
        origin = a.get("origin", a.get("arg2", Str.lit("center")))
        radians = a.get("use_radians", a.get("arg3", False))
        if not (isinstance(geom, Ctor) and geom.name.endswith("Polygon") and list(geom.args.values())[0] is V):
            bad = "turns %s, not the polygon of the vertices" % show(geom)
        elif angle is not an:
            bad = "turns the polygon by %s" % show(angle)
        elif radians is not True:
            bad = "hands the angle to shapely as degrees (use_radians=%s)" % show(radians)
        elif isinstance(origin, Str) and origin.is_lit():
            if origin.text() != "centroid":
                bad = "turns the polygon about its %s, the polygon's centre (Polygon.center) is its centroid" % origin.text()
        else:
            onames, oleaf = chain(origin)
            if not (".centroid" in onames and oleaf is V) and origin is not centre:
                raise Undecided("rotation origin %s" % show(origin))
        if bad is None and ".exterior" not in names:
            raise Undecided("the moved vertices are %s" % show(moved))
    except _Raise as x:
        bad = "raises %s" % x.what
    except Undecided as x:
        raise AnalysisError("%s: %s" % (qn, x))
    res.check("OCC-PLACE", "%s: turned by the angle (radians) about the polygon's centre, then moved by the translation" % qn, bad is None, poly.mod, fn, "%s %s" % (qn, bad), "a polygon-shaped obstacle is not placed at its state: turned about another pivot, by another angle, or not moved", qualname=qn)


def run(repo, res, tier):
    res.rule("OCC-PROTOCOL", "attributes used on elements of obstacle collections are defined by every element class", 10)
    res.rule("OCC-SETTER", "setters store what their getters load", 100)
    res.rule("OCC-PLACE", "occupancies are the obstacle shape placed at the state they belong to", 18)
    res.rule("OCC-DISPATCH", "time-step dispatch of occupancy_at_time / state_at_time / *_at_time_step", 20)
    res.rule("OCC-SCENARIO", "scenario-level queries repeat the per-obstacle answers", 25)
    res.rule("OCC-FRESH", "stored occupancies (initial occupancy shape, occupancy set of a prediction) are recomputed by every operation that replaces the state, shape or trajectory they were placed at", 8)
    from . import c11

    for cache_, _cls, fk_, verdict_, f_ in c11.verdicts(repo, res, want_cache=lambda c: "occupancy" in c.slot.lower()):
        inst = "%s under %s: %s" % (cache_.name, fk_.name, verdict_)
        if f_ is None:
            res.ok("OCC-FRESH", inst)
        else:
            res.bad("OCC-FRESH", inst, Finding("OCC-FRESH", f_[0], f_[1], f_[2], "the stored occupancy still is the shape placed at the previous state / trajectory: occupancy_at_time answers with a region that is not the shape at the state of that time step", qualname=fk_.name))
    cx = Ctx(repo, res)
    protocol(cx)
    setters(cx)
    place(cx)
    dispatch(cx)
    scenario(cx)

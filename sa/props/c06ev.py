"""C06 G2-INDEX decided by abstract evaluation: the spatial index of a lanelet network mirrors its lanelets.

INDEX INVARIANT of a network:  _buffered_polygons maps exactly the ids of _lanelets (whose polygon geometry is a
shapely polygon) to *that lanelet's* polygon geometry; _lanelet_id_index_by_id maps id(geometry) back to the lanelet
id for exactly those geometries; _strtee is an STRtree over exactly those geometries.

Every route that builds or changes a network (constructor + add_lanelet, remove_lanelet, _create_strtree itself,
translate_rotate, pickling hooks, deep copy, create_from_lanelet_list) is evaluated over the AST on a small symbolic
network and the invariant is checked on the resulting object — whatever the code looks like (comprehensions or loops,
helpers, early returns, locals).  shapely, numpy and the reference clean-ups are uninterpreted.
"""
from ..core import AnalysisError
from ..strdom import NONE, ClassRef, Ctor, DictV, Ev, FuncV, IdV, ListV, Obj, Str, Sym, Undecided, _Raise, same, show

LA = "commonroad/scenario/lanelet.py"
CLEANUPS = ("cleanup_lanelet_references", "cleanup_traffic_light_references", "cleanup_traffic_sign_references")


def geometry(label, valid=True):
    g = Obj(None, {}, closed=True, label=label)
    g.ext_types = {"Polygon", "ShapelyPolygon"} if valid else set()
    return g


def lanelet(repo, k, valid=True):
    lan = repo.cls(LA, "Lanelet")
    g = geometry("geometry of lanelet %d" % k, valid)
    poly = Obj(None, {"shapely_object": g, "_shapely_polygon": g}, closed=True, label="polygon of lanelet %d" % k)
    return Obj(lan, {"_lanelet_id": k, "_polygon": poly}, label="lanelet %d" % k)


def network(repo, lanelets, indexed=True):
    net = repo.cls(LA, "LaneletNetwork")
    ev = evaluator(repo)
    o = ev.apply(ClassRef(net), [], {}, net.node, net.mod)
    if not isinstance(o, Obj):
        raise AnalysisError("LaneletNetwork() could not be evaluated")
    for l in lanelets:
        o.fields["_lanelets"].d[l.fields["_lanelet_id"]] = l
        o.fields["_buffered_polygons"].d[l.fields["_lanelet_id"]] = l.fields["_polygon"].fields["shapely_object"]
    if indexed:
        geos = [l.fields["_polygon"].fields["shapely_object"] for l in lanelets]
        o.fields["_lanelet_id_index_by_id"] = DictV({ev.key_of(IdV(g)): l.fields["_lanelet_id"] for g, l in zip(geos, lanelets)})
        o.fields["_strtee"] = Ctor("shapely.strtree.STRtree", {"arg0": ListV(geos)}, kind="call")
    o.label = "network"
    return o


def evaluator(repo):
    ev = Ev(repo)
    ev.pure_modules = {"shapely", "np", "numpy", "math", "STRtree"}
    ev.instantiate = {"LaneletNetwork"}
    for c in CLEANUPS:
        ev.stubs["LaneletNetwork.%s" % c] = lambda a: NONE
    ev.stubs["Lanelet.translate_rotate"] = lambda a: NONE
    ev.stubs["TrafficSign.translate_rotate"] = lambda a: NONE
    ev.stubs["TrafficLight.translate_rotate"] = lambda a: NONE
    return ev


def invariant(net, tree_required=True):
    """list of violations of the index invariant on the evaluated network object"""
    bad = []
    f = net.fields
    L = f.get("_lanelets")
    B = f.get("_buffered_polygons")
    M = f.get("_lanelet_id_index_by_id")
    T = f.get("_strtee")
    if not isinstance(L, DictV) or not isinstance(B, DictV):
        return ["_lanelets / _buffered_polygons are %s / %s" % (show(L), show(B))]
    valid = {k: l for k, l in L.d.items() if "Polygon" in getattr(l.fields["_polygon"].fields["shapely_object"], "ext_types", ())}
    if set(B.d) != set(valid):
        bad.append("index holds ids %s, lanelets with a polygon are %s" % (sorted(B.d), sorted(valid)))
    for k in set(B.d) & set(valid):
        if B.d[k] is not valid[k].fields["_polygon"].fields["shapely_object"]:
            bad.append("index[%s] is %s, not the geometry of lanelet %s" % (k, show(B.d[k]), k))
    if tree_required:
        if not isinstance(M, DictV):
            bad.append("id map is %s" % show(M))
        else:
            want = {("id", id(g)): k for k, g in B.d.items()}
            if M.d != want:
                bad.append("id map does not map id(geometry) -> lanelet id for exactly the indexed geometries (%d entries, %d indexed)" % (len(M.d), len(B.d)))
        if not (isinstance(T, Ctor) and T.name.endswith("STRtree") and len(T.args) == 1):
            bad.append("tree is %s" % show(T))
        else:
            geos = list(T.args.values())[0]
            items = geos.items if isinstance(geos, ListV) else None
            if items is None or sorted(id(x) for x in items) != sorted(id(g) for g in B.d.values()):
                bad.append("tree is built over %s, the index holds %s" % (show(geos), "[%s]" % ", ".join(show(g) for g in B.d.values())))
    return bad


def run_route(repo, res, name, label, body, fn_node):
    net_cls = repo.cls(LA, "LaneletNetwork")
    qn = "LaneletNetwork.%s" % name
    try:
        bad = body()
    except _Raise as x:
        bad = ["raises %s" % x.what]
    except Undecided as x:
        raise AnalysisError("%s [%s]: %s" % (qn, label, x))
    res.check("G2-INDEX", "%s [%s]: index invariant holds afterwards" % (qn, label), not bad, net_cls.mod, fn_node, "%s [%s]: %s" % (qn, label, "; ".join(bad[:3])), "after this operation the spatial index does not mirror the lanelets: look-ups by position / shape miss lanelets, report removed ones, or map hits to the wrong id", qualname=qn)


def index_rules(repo, res):
    net_cls = repo.cls(LA, "LaneletNetwork")

    def method(name):
        fn = net_cls.methods.get(name)
        if fn is None:
            raise AnalysisError("LaneletNetwork.%s missing" % name)
        return fn

    def call(ev, name, recv, args, kwargs=None):
        fn = method(name)
        return ev.call_fn(ev.bind(fn, net_cls, recv), args, kwargs or {}, fn)

    # _create_strtree: rebuilds id map and tree from the buffered polygons, dropping non-polygons
    def r_create():
        ls = [lanelet(repo, 11), lanelet(repo, 25), lanelet(repo, 40, valid=False)]
        n = network(repo, ls, indexed=False)
        call(evaluator(repo), "_create_strtree", n, [])
        return invariant(n)

    run_route(repo, res, "_create_strtree", "two polygons and one lanelet whose geometry is not a polygon", r_create, method("_create_strtree"))

    # add_lanelet
    def r_add(rtree):
        def body():
            n = network(repo, [lanelet(repo, 11), lanelet(repo, 25)])
            new = lanelet(repo, 40)
            r = call(evaluator(repo), "add_lanelet", n, [new], {"rtree": rtree})
            bad = invariant(n, tree_required=rtree)
            if r is not True:
                bad.append("returns %s for a new lanelet" % show(r))
            if n.fields["_lanelets"].d.get(40) is not new:
                bad.append("the lanelet is not stored under its id")
            return bad

        return body

    run_route(repo, res, "add_lanelet", "new lanelet, index rebuilt", r_add(True), method("add_lanelet"))
    run_route(repo, res, "add_lanelet", "new lanelet, rebuild deferred", r_add(False), method("add_lanelet"))

    def r_add_dup():
        n = network(repo, [lanelet(repo, 11), lanelet(repo, 25)])
        before = dict(n.fields["_lanelets"].d)
        r = call(evaluator(repo), "add_lanelet", n, [lanelet(repo, 25)], {"rtree": True})
        bad = invariant(n)
        if r is not False:
            bad.append("returns %s for an id that exists" % show(r))
        if n.fields["_lanelets"].d != before:
            bad.append("an existing lanelet is replaced")
        return bad

    run_route(repo, res, "add_lanelet", "id already in the network", r_add_dup, method("add_lanelet"))

    # remove_lanelet
    def r_remove(present, rtree):
        def body():
            n = network(repo, [lanelet(repo, 11), lanelet(repo, 25)])
            call(evaluator(repo), "remove_lanelet", n, [25 if present else 7], {"rtree": rtree})
            bad = invariant(n, tree_required=rtree or not present)
            if present and 25 in n.fields["_lanelets"].d:
                bad.append("the lanelet is still stored")
            return bad

        return body

    run_route(repo, res, "remove_lanelet", "lanelet of the network, index rebuilt", r_remove(True, True), method("remove_lanelet"))
    run_route(repo, res, "remove_lanelet", "lanelet of the network, rebuild deferred", r_remove(True, False), method("remove_lanelet"))
    run_route(repo, res, "remove_lanelet", "unknown id", r_remove(False, True), method("remove_lanelet"))

    # translate_rotate: every lanelet has a new polygon afterwards
    def r_move():
        ls = [lanelet(repo, 11), lanelet(repo, 25)]
        n = network(repo, ls)
        ev = evaluator(repo)

        def moved(a):
            l = a.get("self")
            g = geometry("moved geometry of %r" % l)
            l.fields["_polygon"] = Obj(None, {"shapely_object": g, "_shapely_polygon": g}, closed=True, label="moved polygon of %r" % l)
            return NONE

        ev.stubs["Lanelet.translate_rotate"] = moved
        call(ev, "translate_rotate", n, [Sym("translation", "num"), Sym("angle", "num")])
        return invariant(n)

    run_route(repo, res, "translate_rotate", "two lanelets, each gets a new polygon", r_move, method("translate_rotate"))

    # pickling hooks
    def r_getstate():
        n = network(repo, [lanelet(repo, 11), lanelet(repo, 25)])
        keys = set(n.fields)
        st = call(evaluator(repo), "__getstate__", n, [])
        bad = invariant(n)
        if not isinstance(st, DictV):
            return bad + ["returns %s" % show(st)]
        if "_strtee" in st.d:
            bad.append("the (unpicklable) tree is part of the pickled state")
        if set(st.d) | {"_strtee"} != keys:
            bad.append("pickled state has fields %s of %s" % (sorted(st.d), sorted(keys)))
        if set(n.fields) != keys:
            bad.append("the live network lost %s" % sorted(keys - set(n.fields)))
        return bad

    run_route(repo, res, "__getstate__", "network with two lanelets", r_getstate, method("__getstate__"))

    def r_setstate():
        src = network(repo, [lanelet(repo, 11), lanelet(repo, 25)])
        state = DictV({k: v for k, v in src.fields.items() if k != "_strtee"})
        tgt = Obj(net_cls, {}, closed=True, label="unpickled network")
        call(evaluator(repo), "__setstate__", tgt, [state])
        return invariant(tgt)

    run_route(repo, res, "__setstate__", "state of a network with two lanelets", r_setstate, method("__setstate__"))

    def r_deepcopy():
        n = network(repo, [lanelet(repo, 11), lanelet(repo, 25)])
        r = call(evaluator(repo), "__deepcopy__", n, [DictV()])
        bad = ["original: " + b for b in invariant(n)]
        if not isinstance(r, Obj) or r is n:
            return bad + ["returns %s" % show(r)]
        return bad + ["copy: " + b for b in invariant(r)]

    run_route(repo, res, "__deepcopy__", "network with two lanelets: copy and original", r_deepcopy, method("__deepcopy__"))

    def r_from_list(cleanup):
        def body():
            ev = evaluator(repo)
            fn = method("create_from_lanelet_list")
            r = ev.call_fn(ev.bind(fn, net_cls, None, via_class=ClassRef(net_cls)), [ListV([lanelet(repo, 11), lanelet(repo, 25)])], {"cleanup_ids": cleanup}, fn)
            if not isinstance(r, Obj):
                return ["returns %s" % show(r)]
            bad = invariant(r)
            if set(r.fields["_lanelets"].d) != {11, 25}:
                bad.append("network holds lanelets %s" % sorted(r.fields["_lanelets"].d))
            return bad

        return body

    run_route(repo, res, "create_from_lanelet_list", "two lanelets, with clean-up", r_from_list(True), method("create_from_lanelet_list"))
    run_route(repo, res, "create_from_lanelet_list", "two lanelets, without clean-up", r_from_list(False), method("create_from_lanelet_list"))


# --------------------------------------------------------------------------- the two spatial look-ups, evaluated
def lookup_rules(repo, res, RULE):
    """find_lanelet_by_shape / find_lanelet_by_position evaluated against a model of the spatial tree: `query` answers
    with bounding-box candidates (one of them a false positive), `geometries` holds the indexed polygons, `intersects`
    tells the true hits.  Expected: by shape, the lanelet ids of exactly the candidates that intersect the queried
    geometry; by position, per query point (aligned with the list) the ids the boundary-inclusive query pairs with it."""
    from ..strdom import PyFunc, TupV

    net_cls = repo.cls(LA, "LaneletNetwork")
    geos = [geometry("tree geometry %d" % i) for i in range(3)]
    lids = [501, 502, 503]

    def make_net(ev, query, intersects):
        for g in geos:
            g.fields["intersects"] = PyFunc(lambda a, k, g=g: intersects(g, a, k), "intersects")
            for alt in ("contains", "covers", "touches", "within", "overlaps", "dwithin"):
                g.fields[alt] = PyFunc(lambda a, k, alt=alt: (_ for _ in ()).throw(AnalysisError("tree candidates are tested with .%s: outside the modelled vocabulary" % alt)), alt)
        tree = Obj(None, {"geometries": ListV(geos), "query": PyFunc(query, "query")}, closed=True, label="tree")
        n = Obj(net_cls, {"_strtee": tree, "_lanelet_id_index_by_id": DictV({ev.key_of(IdV(g)): k for g, k in zip(geos, lids)}), "_lanelets": DictV(), "_buffered_polygons": DictV({k: g for g, k in zip(geos, lids)})}, label="network")
        return n

    # ---- by shape
    fs = net_cls.methods.get("find_lanelet_by_shape")
    if fs is None:
        raise AnalysisError("LaneletNetwork.find_lanelet_by_shape missing")
    q = "LaneletNetwork.find_lanelet_by_shape"
    shape_cls = repo.cls("commonroad/geometry/shape.py", "Rectangle")
    sgeo = geometry("geometry of the queried shape")
    shape = Obj(shape_cls, {"shapely_object": sgeo, "_shapely_polygon": sgeo}, label="queried shape")
    asked = {"query": [], "intersects": []}

    def query_shape(a, k):
        asked["query"].append((a, k))
        return ListV([0, 2])

    def inter_shape(g, a, k):
        asked["intersects"].append((g, a))
        return g is geos[0]

    ev = evaluator(repo)
    n = make_net(ev, query_shape, inter_shape)
    bad = []
    try:
        r = ev.call_fn(ev.bind(fs, net_cls, n), [shape], {}, fs)
        if not (isinstance(r, ListV) and [x for x in r.items] == [lids[0]]):
            bad.append("candidates %s of which only %s intersects: returns %s" % ([lids[0], lids[2]], lids[0], show(r)))
        if not asked["query"] or any(not (a and a[0] is sgeo) for a, _k in asked["query"]):
            bad.append("the tree is queried with %s, not with the shape's geometry" % ([show(a[0]) if a else None for a, _k in asked["query"]]))
        if any(not (a and a[0] is sgeo) for _g, a in asked["intersects"]):
            bad.append("candidates are tested against another geometry than the queried one")
    except _Raise as x:
        bad.append("raises %s" % x.what)
    except Undecided as x:
        raise AnalysisError("%s: %s" % (q, x))
    res.check(RULE, "find_lanelet_by_shape: lanelet ids of exactly the tree candidates whose polygon intersects the queried geometry", not bad, net_cls.mod, fs, "%s: %s" % (q, "; ".join(bad)), "bounding-box candidates are not filtered by `intersects` against the very geometry queried with, or a hit is mapped to the wrong lanelet id", qualname=q)

    # ---- by position
    fp = net_cls.methods.get("find_lanelet_by_position")
    if fp is None:
        raise AnalysisError("LaneletNetwork.find_lanelet_by_position missing")
    q = "LaneletNetwork.find_lanelet_by_position"
    pts = [Sym("point%d" % i, "num") for i in range(3)]
    seen = {}

    def query_points(a, k):
        seen["args"], seen["kw"] = a, k
        return TupV([ListV([0, 0, 2]), ListV([1, 2, 0])])

    ev = evaluator(repo)
    n = make_net(ev, query_points, lambda g, a, k: True)
    bad = []
    try:
        r = ev.call_fn(ev.bind(fp, net_cls, n), [ListV(pts)], {}, fp)
        want = [[lids[1], lids[2]], [], [lids[0]]]
        got = [list(x.items) if isinstance(x, ListV) else x for x in r.items] if isinstance(r, ListV) else None
        if got is None or len(got) != 3 or [sorted(x) if isinstance(x, list) else x for x in got] != [sorted(x) for x in want]:
            bad.append("tree pairs (point 0: %s, %s; point 2: %s): returns %s" % (lids[1], lids[2], lids[0], show(r)))
        a, k = seen.get("args"), seen.get("kw", {})
        qg = a[0] if a else None
        okq = isinstance(qg, ListV) and len(qg.items) == 3 and all(isinstance(x, Ctor) and x.name.endswith("Point") and list(x.args.values())[0] is p for x, p in zip(qg.items, pts))
        if not okq:
            bad.append("the tree is not queried with one point geometry per query point, in order (%s)" % show(qg))
        pred = k.get("predicate")
        pv = pred.text() if isinstance(pred, Str) and pred.is_lit() else None
        dist = k.get("distance")
        inclusive = pv in ("intersects", "covered_by", "within_or_touches") or (pv == "dwithin" and isinstance(dist, (int, float)) and 0 <= dist <= 1e-9)
        if not inclusive:
            bad.append("query predicate %s (distance %s) is not the boundary-inclusive point test" % (pv, show(dist)))
    except _Raise as x:
        bad.append("raises %s" % x.what)
    except Undecided as x:
        raise AnalysisError("%s: %s" % (q, x))
    res.check(RULE, "find_lanelet_by_position: per query point, in order, the lanelet ids the boundary-inclusive tree query pairs with it", not bad, net_cls.mod, fp, "%s: %s" % (q, "; ".join(bad)), "hits are attributed to the wrong query point, mapped to the wrong lanelet id, points on a boundary are excluded, or the answer is not aligned with the list of points", qualname=q)
    return fs

"""C06 G2-INDEX decided by abstract evaluation: the spatial index of a lanelet network mirrors its lanelets.

INDEX INVARIANT of a network:  _buffered_polygons maps exactly the ids of _lanelets (whose polygon geometry is a
shapely polygon) to *that lanelet's* polygon geometry; _lanelet_id_index_by_id maps id(geometry) back to the lanelet
id for exactly those geometries; _strtee is an STRtree over exactly those geometries.

Every route that builds or changes a network (constructor + add_lanelet, remove_lanelet, _create_strtree itself,
translate_rotate, pickling hooks, deep copy, create_from_lanelet_list) is evaluated over the AST on a small symbolic
network and the invariant is checked on the resulting object — whatever the code looks like (comprehensions or loops,
helpers, early returns, locals).  shapely, numpy and the reference clean-ups are uninterpreted.
"""
from ..core import AnalysisError
from ..strdom import NONE, ClassRef, Ctor, DictV, Ev, FuncV, IdV, ListV, Obj, SetV, Str, Sym, Undecided, _Raise, same, show

LA = "commonroad/scenario/lanelet.py"
CLEANUPS = ("cleanup_lanelet_references", "cleanup_traffic_light_references", "cleanup_traffic_sign_references")


def geometry(label, valid=True):
    g = Obj(None, {}, closed=True, label=label)
    g.ext_types = {"Polygon", "ShapelyPolygon"} if valid else set()
    return g


def lanelet(repo, k, valid=True):
    lan = repo.cls(LA, "Lanelet")
    g = geometry("geometry of lanelet %d" % k, valid)
    poly = Obj(None, {"shapely_object": g, "_shapely_polygon": g}, closed=True, label="polygon of lanelet %d" % k)
    return Obj(lan, {"_lanelet_id": k, "_polygon": poly}, label="lanelet %d" % k)


def network(repo, lanelets, indexed=True):
    net = repo.cls(LA, "LaneletNetwork")
    ev = evaluator(repo)
    o = ev.apply(ClassRef(net), [], {}, net.node, net.mod)
    if not isinstance(o, Obj):
        raise AnalysisError("LaneletNetwork() could not be evaluated")
    for l in lanelets:
        o.fields["_lanelets"].d[l.fields["_lanelet_id"]] = l
        o.fields["_buffered_polygons"].d[l.fields["_lanelet_id"]] = l.fields["_polygon"].fields["shapely_object"]
    if indexed:
        # the index is built by the class's own _create_strtree from the polygons (whatever it keeps the id map in)
        owner, cs = repo.find_method(net, "_create_strtree")
        if cs is None:
            raise AnalysisError("LaneletNetwork._create_strtree missing")
        try:
            ev.call_fn(ev.bind(cs, owner, o), [], {}, cs)
        except (_Raise, Undecided) as x:
            raise AnalysisError("LaneletNetwork._create_strtree could not be evaluated: %s" % x)
    o.label = "network"
    return o


_REPO = [None]


def evaluator(repo):
    _REPO[0] = repo
    ev = Ev(repo)
    ev.pure_modules = {"shapely", "np", "numpy", "math", "STRtree"}
    ev.instantiate = {"LaneletNetwork"}
    for c in CLEANUPS:
        ev.stubs["LaneletNetwork.%s" % c] = lambda a: NONE
    ev.stubs["Lanelet.translate_rotate"] = lambda a: NONE
    ev.stubs["TrafficSign.translate_rotate"] = lambda a: NONE
    ev.stubs["TrafficLight.translate_rotate"] = lambda a: NONE
    return ev


def invariant(net, tree_required=True):
    """list of violations of the index invariant on the evaluated network object"""
    bad = []
    f = net.fields
    L = f.get("_lanelets")
    B = f.get("_buffered_polygons")
    M = f.get("_lanelet_id_index_by_id")
    T = f.get("_strtee")
    if not isinstance(L, DictV) or not isinstance(B, DictV):
        return ["_lanelets / _buffered_polygons are %s / %s" % (show(L), show(B))]
    valid = {k: l for k, l in L.d.items() if "Polygon" in getattr(l.fields["_polygon"].fields["shapely_object"], "ext_types", ())}
    if set(B.d) != set(valid):
        bad.append("index holds ids %s, lanelets with a polygon are %s" % (sorted(B.d), sorted(valid)))
    for k in set(B.d) & set(valid):
        if B.d[k] is not valid[k].fields["_polygon"].fields["shapely_object"]:
            bad.append("index[%s] is %s, not the geometry of lanelet %s" % (k, show(B.d[k]), k))
    if tree_required:
        if isinstance(M, DictV):
            want = {("id", id(g)): k for k, g in B.d.items()}
            if M.d != want:
                bad.append("id map does not map id(geometry) -> lanelet id for exactly the indexed geometries (%d entries, %d indexed)" % (len(M.d), len(B.d)))
        elif _REPO[0] is not None and net.cls is not None:
            # the id map is kept in some other structure: asked through the class's own look-up, geometry by geometry
            owner, look = _REPO[0].find_method(net.cls, "_get_lanelet_id_by_shapely_polygon")
            if look is None:
                bad.append("id map is %s and there is no _get_lanelet_id_by_shapely_polygon to ask" % show(M))
            else:
                for k, g in B.d.items():
                    ev = evaluator(_REPO[0])
                    try:
                        got = ev.call_fn(ev.bind(look, owner, net), [g], {}, look)
                    except _Raise as x:
                        bad.append("the id map does not know the geometry of lanelet %s (%s)" % (k, x.what))
                        continue
                    if got != k:
                        bad.append("the id map answers %s for the geometry of lanelet %s" % (show(got), k))
        else:
            bad.append("id map is %s" % show(M))
        if not (isinstance(T, Ctor) and T.name.endswith("STRtree") and len(T.args) == 1):
            bad.append("tree is %s" % show(T))
        else:
            geos = list(T.args.values())[0]
            items = geos.items if isinstance(geos, ListV) else None
            if items is None or sorted(id(x) for x in items) != sorted(id(g) for g in B.d.values()):
                bad.append("tree is built over %s, the index holds %s" % (show(geos), "[%s]" % ", ".join(show(g) for g in B.d.values())))
    return bad


def run_route(repo, res, name, label, body, fn_node):
    net_cls = repo.cls(LA, "LaneletNetwork")
    qn = "LaneletNetwork.%s" % name
    try:
        bad = body()
    except _Raise as x:
        bad = ["raises %s" % x.what]
    except Undecided as x:
        raise AnalysisError("%s [%s]: %s" % (qn, label, x))
    res.check("G2-INDEX", "%s [%s]: index invariant holds afterwards" % (qn, label), not bad, net_cls.mod, fn_node, "%s [%s]: %s" % (qn, label, "; ".join(bad[:3])), "after this operation the spatial index does not mirror the lanelets: look-ups by position / shape miss lanelets, report removed ones, or map hits to the wrong id", qualname=qn)


def index_rules(repo, res):
    net_cls = repo.cls(LA, "LaneletNetwork")

    def method(name):
        fn = net_cls.methods.get(name)
        if fn is None:
            raise AnalysisError("LaneletNetwork.%s missing" % name)
        return fn

    def call(ev, name, recv, args, kwargs=None):
        fn = method(name)
        return ev.call_fn(ev.bind(fn, net_cls, recv), args, kwargs or {}, fn)

    # _create_strtree: rebuilds id map and tree from the buffered polygons, dropping non-polygons
    def r_create():
        ls = [lanelet(repo, 11), lanelet(repo, 25), lanelet(repo, 40, valid=False)]
        n = network(repo, ls, indexed=False)
        call(evaluator(repo), "_create_strtree", n, [])
        return invariant(n)

    run_route(repo, res, "_create_strtree", "two polygons and one lanelet whose geometry is not a polygon", r_create, method("_create_strtree"))

    # add_lanelet
    def r_add(rtree):
        def body():
            n = network(repo, [lanelet(repo, 11), lanelet(repo, 25)])
            new = lanelet(repo, 40)
            r = call(evaluator(repo), "add_lanelet", n, [new], {"rtree": rtree})
            bad = invariant(n, tree_required=rtree)
            if r is not True:
                bad.append("returns %s for a new lanelet" % show(r))
            if n.fields["_lanelets"].d.get(40) is not new:
                bad.append("the lanelet is not stored under its id")
            return bad

        return body

    run_route(repo, res, "add_lanelet", "new lanelet, index rebuilt", r_add(True), method("add_lanelet"))
    run_route(repo, res, "add_lanelet", "new lanelet, rebuild deferred", r_add(False), method("add_lanelet"))

    def r_add_dup():
        n = network(repo, [lanelet(repo, 11), lanelet(repo, 25)])
        before = dict(n.fields["_lanelets"].d)
        r = call(evaluator(repo), "add_lanelet", n, [lanelet(repo, 25)], {"rtree": True})
        bad = invariant(n)
        if r is not False:
            bad.append("returns %s for an id that exists" % show(r))
        if n.fields["_lanelets"].d != before:
            bad.append("an existing lanelet is replaced")
        return bad

    run_route(repo, res, "add_lanelet", "id already in the network", r_add_dup, method("add_lanelet"))

    # remove_lanelet
    def r_remove(present, rtree):
        def body():
            n = network(repo, [lanelet(repo, 11), lanelet(repo, 25)])
            call(evaluator(repo), "remove_lanelet", n, [25 if present else 7], {"rtree": rtree})
            bad = invariant(n, tree_required=rtree or not present)
            if present and 25 in n.fields["_lanelets"].d:
                bad.append("the lanelet is still stored")
            return bad

        return body

    run_route(repo, res, "remove_lanelet", "lanelet of the network, index rebuilt", r_remove(True, True), method("remove_lanelet"))
    run_route(repo, res, "remove_lanelet", "lanelet of the network, rebuild deferred", r_remove(True, False), method("remove_lanelet"))
    run_route(repo, res, "remove_lanelet", "unknown id", r_remove(False, True), method("remove_lanelet"))

    # translate_rotate: every lanelet has a new polygon afterwards
    def r_move():
        ls = [lanelet(repo, 11), lanelet(repo, 25)]
        n = network(repo, ls)
        ev = evaluator(repo)

        def moved(a):
            l = a.get("self")
            g = geometry("moved geometry of %r" % l)
            l.fields["_polygon"] = Obj(None, {"shapely_object": g, "_shapely_polygon": g}, closed=True, label="moved polygon of %r" % l)
            return NONE

        ev.stubs["Lanelet.translate_rotate"] = moved
        call(ev, "translate_rotate", n, [Sym("translation", "num"), Sym("angle", "num")])
        return invariant(n)

    run_route(repo, res, "translate_rotate", "two lanelets, each gets a new polygon", r_move, method("translate_rotate"))

    # pickling hooks
    def r_getstate():
        n = network(repo, [lanelet(repo, 11), lanelet(repo, 25)])
        keys = set(n.fields)
        st = call(evaluator(repo), "__getstate__", n, [])
        bad = invariant(n)
        if not isinstance(st, DictV):
            return bad + ["returns %s" % show(st)]
        if "_strtee" in st.d:
            bad.append("the (unpicklable) tree is part of the pickled state")
        if set(st.d) | {"_strtee"} != keys:
            bad.append("pickled state has fields %s of %s" % (sorted(st.d), sorted(keys)))
        if set(n.fields) != keys:
            bad.append("the live network lost %s" % sorted(keys - set(n.fields)))
        return bad

    run_route(repo, res, "__getstate__", "network with two lanelets", r_getstate, method("__getstate__"))

    def r_setstate():
        src = network(repo, [lanelet(repo, 11), lanelet(repo, 25)])
        state = DictV({k: v for k, v in src.fields.items() if k != "_strtee"})
        tgt = Obj(net_cls, {}, closed=True, label="unpickled network")
        call(evaluator(repo), "__setstate__", tgt, [state])
        return invariant(tgt)

    run_route(repo, res, "__setstate__", "state of a network with two lanelets", r_setstate, method("__setstate__"))

    def r_deepcopy():
        n = network(repo, [lanelet(repo, 11), lanelet(repo, 25)])
        r = call(evaluator(repo), "__deepcopy__", n, [DictV()])
        bad = ["original: " + b for b in invariant(n)]
        if not isinstance(r, Obj) or r is n:
            return bad + ["returns %s" % show(r)]
        return bad + ["copy: " + b for b in invariant(r)]

    run_route(repo, res, "__deepcopy__", "network with two lanelets: copy and original", r_deepcopy, method("__deepcopy__"))

    def r_from_list(cleanup):
        def body():
            ev = evaluator(repo)
            fn = method("create_from_lanelet_list")
            r = ev.call_fn(ev.bind(fn, net_cls, None, via_class=ClassRef(net_cls)), [ListV([lanelet(repo, 11), lanelet(repo, 25)])], {"cleanup_ids": cleanup}, fn)
            if not isinstance(r, Obj):
                return ["returns %s" % show(r)]
            bad = invariant(r)
            if set(r.fields["_lanelets"].d) != {11, 25}:
                bad.append("network holds lanelets %s" % sorted(r.fields["_lanelets"].d))
            return bad

        return body

    # merging another network in: all of its new lanelets end up indexed, also when one of them collides
    def r_merge(collision):
        def body():
            n = network(repo, [lanelet(repo, 11), lanelet(repo, 25)])
            donor_lanelets = [lanelet(repo, 40)] + ([lanelet(repo, 25)] if collision else []) + [lanelet(repo, 52)]
            donor = Obj(net_cls, {"lanelets": ListV(donor_lanelets), "_lanelets": DictV({l.fields["_lanelet_id"]: l for l in donor_lanelets})}, label="donor network")
            r = call(evaluator(repo), "add_lanelets_from_network", n, [donor])
            bad = invariant(n)
            if not {11, 25, 40} <= set(n.fields["_lanelets"].d):
                bad.append("network holds lanelets %s" % sorted(n.fields["_lanelets"].d))
            if (r is True) == collision:
                bad.append("returns %s %s a collision" % (show(r), "with" if collision else "without"))
            return bad

        return body

    run_route(repo, res, "add_lanelets_from_network", "two new lanelets", r_merge(False), method("add_lanelets_from_network"))
    run_route(repo, res, "add_lanelets_from_network", "a new lanelet, one whose id exists already, another new lanelet", r_merge(True), method("add_lanelets_from_network"))
    run_route(repo, res, "create_from_lanelet_list", "two lanelets, with clean-up", r_from_list(True), method("create_from_lanelet_list"))
    run_route(repo, res, "create_from_lanelet_list", "two lanelets, without clean-up", r_from_list(False), method("create_from_lanelet_list"))


# --------------------------------------------------------------------------- the two spatial look-ups, evaluated
def lookup_rules(repo, res, RULE):
    """find_lanelet_by_shape / find_lanelet_by_position evaluated against a model of the spatial tree: `query` answers
    with bounding-box candidates (one of them a false positive), `geometries` holds the indexed polygons, `intersects`
    tells the true hits.  Expected: by shape, the lanelet ids of exactly the candidates that intersect the queried
    geometry; by position, per query point (aligned with the list) the ids the boundary-inclusive query pairs with it."""
    from ..strdom import PyFunc, TupV

    net_cls = repo.cls(LA, "LaneletNetwork")
    geos = [geometry("tree geometry %d" % i) for i in range(3)]
    lids = [501, 502, 503]

    def make_net(ev, query, intersects):
        for g in geos:
            g.fields["intersects"] = PyFunc(lambda a, k, g=g: intersects(g, a, k), "intersects")
            for alt in ("contains", "covers", "touches", "within", "overlaps", "dwithin"):
                g.fields[alt] = PyFunc(lambda a, k, alt=alt: (_ for _ in ()).throw(AnalysisError("tree candidates are tested with .%s: outside the modelled vocabulary" % alt)), alt)
        tree = Obj(None, {"geometries": ListV(geos), "query": PyFunc(query, "query")}, closed=True, label="tree")
        n = Obj(net_cls, {"_strtee": tree, "_lanelets": DictV(), "_buffered_polygons": DictV({k: g for g, k in zip(geos, lids)})}, label="network")
        # the id map is built by the class's own _create_strtree (whatever structure it is kept in); the tree it makes is
        # the model above
        owner_, cs_ = repo.find_method(net_cls, "_create_strtree")
        if cs_ is None:
            raise AnalysisError("LaneletNetwork._create_strtree missing")
        ev_b = evaluator(repo)
        made = []
        for nm in ("STRtree", "shapely.strtree.STRtree", "strtree.STRtree", "shapely.STRtree"):
            ev_b.model_calls[nm] = lambda a, k, tree=tree, made=made: (made.append(a[0] if a else None), tree)[1]
        try:
            ev_b.call_fn(ev_b.bind(cs_, owner_, n), [], {}, cs_)
        except (_Raise, Undecided) as x:
            raise AnalysisError("LaneletNetwork._create_strtree could not be evaluated: %s" % x)
        if n.fields.get("_strtee") is not tree:
            n.fields["_strtee"] = tree
        return n

    # ---- by shape
    fs = net_cls.methods.get("find_lanelet_by_shape")
    if fs is None:
        raise AnalysisError("LaneletNetwork.find_lanelet_by_shape missing")
    q = "LaneletNetwork.find_lanelet_by_shape"
    shape_cls = repo.cls("commonroad/geometry/shape.py", "Rectangle")
    sgeo = geometry("geometry of the queried shape")
    shape = Obj(shape_cls, {"shapely_object": sgeo, "_shapely_polygon": sgeo}, label="queried shape")
    asked = {"query": [], "intersects": []}

    def query_shape(a, k):
        asked["query"].append((a, k))
        return ListV([0, 2])

    def inter_shape(g, a, k):
        asked["intersects"].append((g, a))
        return g is geos[0]

    ev = evaluator(repo)
    n = make_net(ev, query_shape, inter_shape)
    bad = []
    try:
        r = ev.call_fn(ev.bind(fs, net_cls, n), [shape], {}, fs)
        if not (isinstance(r, ListV) and [x for x in r.items] == [lids[0]]):
            bad.append("candidates %s of which only %s intersects: returns %s" % ([lids[0], lids[2]], lids[0], show(r)))
        if not asked["query"] or any(not (a and a[0] is sgeo) for a, _k in asked["query"]):
            bad.append("the tree is queried with %s, not with the shape's geometry" % ([show(a[0]) if a else None for a, _k in asked["query"]]))
        if any(not (a and a[0] is sgeo) for _g, a in asked["intersects"]):
            bad.append("candidates are tested against another geometry than the queried one")
    except _Raise as x:
        bad.append("raises %s" % x.what)
    except Undecided as x:
        raise AnalysisError("%s: %s" % (q, x))
    res.check(RULE, "find_lanelet_by_shape: lanelet ids of exactly the tree candidates whose polygon intersects the queried geometry", not bad, net_cls.mod, fs, "%s: %s" % (q, "; ".join(bad)), "bounding-box candidates are not filtered by `intersects` against the very geometry queried with, or a hit is mapped to the wrong lanelet id", qualname=q)

    # ---- by position
    fp = net_cls.methods.get("find_lanelet_by_position")
    if fp is None:
        raise AnalysisError("LaneletNetwork.find_lanelet_by_position missing")
    q = "LaneletNetwork.find_lanelet_by_position"
    pts = [Sym("point%d" % i, "num") for i in range(3)]
    seen = {}

    def query_points(a, k):
        seen["args"], seen["kw"] = a, k
        return TupV([ListV([0, 0, 2]), ListV([1, 2, 0])])

    ev = evaluator(repo)
    n = make_net(ev, query_points, lambda g, a, k: True)
    bad = []
    try:
        r = ev.call_fn(ev.bind(fp, net_cls, n), [ListV(pts)], {}, fp)
        want = [[lids[1], lids[2]], [], [lids[0]]]
        got = [list(x.items) if isinstance(x, ListV) else x for x in r.items] if isinstance(r, ListV) else None
        if got is None or len(got) != 3 or [sorted(x) if isinstance(x, list) else x for x in got] != [sorted(x) for x in want]:
            bad.append("tree pairs (point 0: %s, %s; point 2: %s): returns %s" % (lids[1], lids[2], lids[0], show(r)))
        a, k = seen.get("args"), seen.get("kw", {})
        qg = a[0] if a else None
        okq = isinstance(qg, ListV) and len(qg.items) == 3 and all(isinstance(x, Ctor) and x.name.endswith("Point") and list(x.args.values())[0] is p for x, p in zip(qg.items, pts))
        if not okq:
            bad.append("the tree is not queried with one point geometry per query point, in order (%s)" % show(qg))
        pred = k.get("predicate")
        pv = pred.text() if isinstance(pred, Str) and pred.is_lit() else None
        dist = k.get("distance")
        inclusive = pv in ("intersects", "covered_by", "within_or_touches") or (pv == "dwithin" and isinstance(dist, (int, float)) and 0 <= dist <= 1e-9)
        if not inclusive:
            bad.append("query predicate %s (distance %s) is not the boundary-inclusive point test" % (pv, show(dist)))
    except _Raise as x:
        bad.append("raises %s" % x.what)
    except Undecided as x:
        raise AnalysisError("%s: %s" % (q, x))
    res.check(RULE, "find_lanelet_by_position: per query point, in order, the lanelet ids the boundary-inclusive tree query pairs with it", not bad, net_cls.mod, fp, "%s: %s" % (q, "; ".join(bad)), "hits are attributed to the wrong query point, mapped to the wrong lanelet id, points on a boundary are excluded, or the answer is not aligned with the list of points", qualname=q)
    return fs


# --------------------------------------------------------------------------- obstacles on a lanelet
def get_obstacles_rule(repo, res, RULE="G4-PROTOCOL"):
    """Lanelet.get_obstacles: an obstacle is on the lanelet iff its occupancy — for a shape group: *one of* its member
    shapes — intersects the lanelet polygon; asked at the requested time step."""
    from ..strdom import PyFunc, Sym

    lan = repo.cls(LA, "Lanelet")
    sg = repo.cls("commonroad/geometry/shape.py", "ShapeGroup")
    rect = repo.cls("commonroad/geometry/shape.py", "Rectangle")
    ob = repo.cls("commonroad/scenario/obstacle.py", "StaticObstacle")
    fn = lan.methods.get("get_obstacles")
    if fn is None:
        raise AnalysisError("Lanelet.get_obstacles missing")
    qn = "Lanelet.get_obstacles"
    t = Sym("time_step", "int", positive=True)
    for label, groups in (("single shapes", [[True], [False]]), ("shape groups", [[True, True], [False, True], [True, False], [False, False]]), ("mixed", [[False, False, True], [False], [True]])):
        hits = {}
        asked = []
        lgeo = geometry("lanelet geometry")
        lgeo.fields["intersects"] = PyFunc(lambda a, k: hits.get(id(a[0]), False), "intersects")
        me = Obj(lan, {"_polygon": Obj(None, {"shapely_object": lgeo}, closed=True), "_lanelet_id": 5}, label="lanelet")
        obstacles, want = [], []
        for i, members in enumerate(groups):
            shapes = []
            for j, inside in enumerate(members):
                g = geometry("geometry %d.%d" % (i, j))
                hits[id(g)] = inside
                shapes.append(Obj(rect, {"shapely_object": g, "_shapely_polygon": g}, label="shape %d.%d" % (i, j)))
            occ_shape = shapes[0] if len(shapes) == 1 and label != "shape groups" else Obj(sg, {"_shapes": ListV(shapes)}, label="group %d" % i)
            o = Obj(ob, {"_obstacle_id": 70 + i}, label="obstacle %d" % i)
            o.fields["occupancy_at_time"] = PyFunc(lambda a, k, s=occ_shape: (asked.append(a[0] if a else k.get("time_step")), Obj(None, {"shape": s}, closed=True))[1], "occupancy_at_time")
            obstacles.append(o)
            if any(members):
                want.append(o)
        ev = evaluator(repo)
        bad = None
        try:
            r = ev.call_fn(ev.bind(fn, lan, me), [ListV(obstacles), t], {}, fn)
            got = r.items if isinstance(r, ListV) else None
            if got is None or sorted(id(x) for x in got) != sorted(id(x) for x in want):
                bad = "returns %s, expected %s" % (show(r), "[%s]" % ", ".join(show(x) for x in want))
            elif any(a is not t for a in asked):
                bad = "asks an occupancy at another time step"
        except _Raise as x:
            bad = "raises %s" % x.what
        except Undecided as x:
            raise AnalysisError("%s [%s]: %s" % (qn, label, x))
        res.check(RULE, "%s [%s]: exactly the obstacles one of whose shapes intersects the lanelet" % (qn, label), bad is None, lan.mod, fn, "%s [%s] %s" % (qn, label, bad), "an obstacle is reported on a lanelet it does not touch, or missed although (a part of) it lies on the lanelet", qualname=qn)


def points_and_mapping_rules(repo, res, RULE="G4-PROTOCOL"):
    """Lanelet.contains_points answers per point, in order, what the lanelet polygon answers for that point;
    LaneletNetwork.map_obstacles_to_lanelets files, under each lanelet's id, that lanelet's own non-empty answer."""
    from ..strdom import PyFunc, Sym, TupV

    lan = repo.cls(LA, "Lanelet")
    net_cls = repo.cls(LA, "LaneletNetwork")
    fn = lan.methods.get("contains_points")
    if fn is None:
        raise AnalysisError("Lanelet.contains_points missing")
    # three query points: strictly inside, strictly outside, on the boundary of the lanelet polygon.  The geometric
    # truth of the property is the closed polygon; the model polygon answers it through contains_point and through
    # the closed predicates of its planar geometry (intersects / covers), and answers the open-set predicates
    # (contains / contains_xy / within) with the boundary point outside, as shapely does.
    pts = [TupV([Sym("x%d" % i, "num"), Sym("y%d" % i, "num")]) for i in range(3)]
    CLOSED, OPEN = [True, False, True], [True, False, False]
    asked = []

    def which(p):
        if isinstance(p, Ctor) and p.name.split(".")[-1] in ("Point", "ShapelyPoint") and len(p.args) == 1:
            p = list(p.args.values())[0]
        for i, q in enumerate(pts):
            if p is q or (isinstance(p, ListV) and len(p.items) == 2 and p.items[0] is q.items[0] and p.items[1] is q.items[1]):
                asked.append(i)
                return i
        raise Undecided("the lanelet polygon is asked about %s, which is none of the query points" % show(p))

    def columns(xs, ys):
        if not (isinstance(xs, ListV) and isinstance(ys, ListV) and len(xs.items) == len(ys.items)):
            raise Undecided("vectorised predicate over %s, %s" % (show(xs), show(ys)))
        return [which(ListV([x, y])) for x, y in zip(xs.items, ys.items)]

    geom = geometry("geometry of the lanelet polygon")
    geom.fields.update({"intersects": PyFunc(lambda a, k: CLOSED[which(a[0])], "intersects"), "covers": PyFunc(lambda a, k: CLOSED[which(a[0])], "covers"), "contains": PyFunc(lambda a, k: OPEN[which(a[0])], "contains")})
    poly = Obj(None, {"contains_point": PyFunc(lambda a, k: CLOSED[which(a[0])], "contains_point"), "shapely_object": geom}, closed=True, label="lanelet polygon")
    me = Obj(lan, {"_polygon": poly, "_lanelet_id": 5}, label="lanelet")
    ev = evaluator(repo)

    def vector(table):
        def f(a, k):
            if not a or a[0] is not geom:
                raise Undecided("vectorised predicate on %s" % show(a[0] if a else None))
            out = ListV([table[i] for i in columns(a[1], a[2])])
            out.ext_types = {"ndarray"}
            out.fields = {}
            return out

        return f

    for nm, tab in (("contains_xy", OPEN), ("intersects_xy", CLOSED)):
        ev.model_calls["shapely.%s" % nm] = vector(tab)
    bad = None
    try:
        arr = ListV(pts)
        arr.ext_types = {"ndarray"}
        r = ev.call_fn(ev.bind(fn, lan, me), [arr], {}, fn)
        got = [ev.truth(x) for x in r.items] if isinstance(r, ListV) else None
        if got != CLOSED:
            bad = "answers %s for points that are (inside, outside, on the boundary of) the polygon, whose closed region holds the first and the third" % show(r)
        elif asked != [0, 1, 2]:
            bad = "asks the polygon about the points in the order %s" % asked
    except _Raise as x:
        bad = "raises %s" % x.what
    except Undecided as x:
        raise AnalysisError("Lanelet.contains_points: %s" % x)
    res.check(RULE, "Lanelet.contains_points: per point, in order, the answer of the lanelet polygon", bad is None, lan.mod, fn, "Lanelet.contains_points %s" % bad, "point containment is not decided by the lanelet polygon, or not per point", qualname="Lanelet.contains_points")
    fn = net_cls.methods.get("map_obstacles_to_lanelets")
    if fn is None:
        raise AnalysisError("LaneletNetwork.map_obstacles_to_lanelets missing")
    obs = ListV([Obj(None, {}, label="obstacle %d" % i) for i in range(3)])
    answers = {11: ListV([obs.items[0]]), 25: ListV([]), 40: ListV([obs.items[1], obs.items[2]])}
    calls = []
    lanelets = []
    for k in (11, 25, 40):
        l = Obj(lan, {"_lanelet_id": k}, label="lanelet %d" % k)
        l.fields["get_obstacles"] = PyFunc(lambda a, kw, k=k: (calls.append((k, list(a) + list(kw.values()))), answers[k])[1], "get_obstacles")
        lanelets.append(l)
    n = Obj(net_cls, {"_lanelets": DictV({l.fields["_lanelet_id"]: l for l in lanelets})}, label="network")
    ev = evaluator(repo)
    bad = None
    try:
        r = ev.call_fn(ev.bind(fn, net_cls, n), [obs], {}, fn)
        if not (isinstance(r, DictV) and set(r.d) == {11, 40} and r.d[11] is answers[11] and r.d[40] is answers[40]):
            bad = "returns %s, expected the non-empty answers of lanelets 11 and 40 under their ids" % (show(r.d) if isinstance(r, DictV) else show(r))
        elif any(not a or a[0] is not obs for _k, a in calls):
            bad = "asks a lanelet about another obstacle list"
    except _Raise as x:
        bad = "raises %s" % x.what
    except Undecided as x:
        raise AnalysisError("LaneletNetwork.map_obstacles_to_lanelets: %s" % x)
    res.check(RULE, "map_obstacles_to_lanelets: every lanelet's own non-empty answer, keyed by its id", bad is None, net_cls.mod, fn, "map_obstacles_to_lanelets %s" % bad, "the obstacle map is not built from every lanelet's own answer", qualname="LaneletNetwork.map_obstacles_to_lanelets")


# --------------------------------------------------------------------------- polygon: predicate vs exported geometry
def polygon_rules(repo, res, RULE="G1-SHAPE-AGREE"):
    """Polygon: the planar geometry it exports is the polygon of its vertex ring, and contains_point answers, for
    every position of the point relative to that ring and to its bounding box, what the closed ring answers.

    The constructor and contains_point are evaluated with the vertex array as a symbol; numpy and shapely are
    uninterpreted, except that comparisons of the point with min / max of the vertices and the geometry's predicates
    are answered by the case at hand (a table of truths, one row per case)."""
    from ..strdom import ClassRef, PyFunc, Sym

    SHP = "commonroad/geometry/shape.py"
    poly = repo.cls(SHP, "Polygon")
    cp = poly.methods.get("contains_point")
    if cp is None:
        raise AnalysisError("Polygon.contains_point missing")
    V, P = Sym("vertices", "num"), Sym("point", "num")
    RING = {"numpy.array", "numpy.asarray", ".coords", ".exterior", "shapely.geometry.polygon.orient", "shapely.geometry.geometry.polygon.orient"}

    def polygon_of_ring(v):
        return isinstance(v, Ctor) and v.name.split(".")[-1] == "Polygon" and v.name.split(".")[0] == "shapely" and len(v.args) == 1 and ring(list(v.args.values())[0])

    def ring(v):
        """the given vertex array, or the same ring re-read from the geometry built from it (re-oriented, closed)"""
        if v is V:
            return True
        if isinstance(v, Ctor) and v.name in RING and v.args:
            inner = list(v.args.values())[0]
            return ring(inner) or polygon_of_ring(inner)
        return False

    partial = []

    def whole(v):
        """v, or v without a slice that takes only part of it (noted in `partial`)"""
        if isinstance(v, Ctor) and v.name == ".slice" and ring(v.args.get("of")):
            if not (v.args.get("lo") is NONE and v.args.get("hi") is NONE):
                partial.append("vertices[%s:%s]" % ("" if v.args.get("lo") is NONE else show(v.args.get("lo")), "" if v.args.get("hi") is NONE else show(v.args.get("hi"))))
            return v.args.get("of")
        return v

    def corner(v):
        if isinstance(v, Ctor) and v.name in ("numpy.min", "numpy.amin", "numpy.max", "numpy.amax", ".min()", ".max()") and v.args:
            v = Ctor(v.name, dict(v.args, **{list(v.args)[0]: whole(list(v.args.values())[0])}), kind="call")
        if isinstance(v, Ctor) and v.name in ("numpy.min", "numpy.amin", "numpy.max", "numpy.amax", ".min()", ".max()") and ring(list(v.args.values())[0]):
            rest = [x for k, x in list(v.args.items())[1:]]
            if rest == [0]:
                return "lo" if "min" in v.name else "hi"
        return None

    # cases: value of (lo, p, hi) per coordinate, truth of the closed geometry and of its interior for the point
    CASES = [
        ("a point inside the ring", [(0, 1, 2), (0, 1, 2)], True, True, True),
        ("a vertex with the smallest x (on the lower edge of the bounding box)", [(0, 0, 2), (0, 1, 2)], True, False, True),
        ("a vertex with the largest y (on the upper edge of the bounding box)", [(0, 1, 2), (0, 2, 2)], True, False, True),
        ("a point inside the bounding box and outside the ring", [(0, 1, 2), (0, 1, 2)], False, False, False),
        ("a point left of the bounding box", [(0, -1, 2), (0, 1, 2)], False, False, False),
        ("a point above the bounding box", [(0, 1, 2), (0, 3, 2)], False, False, False),
    ]
    import operator

    OPS = {"less_equal": operator.le, "less": operator.lt, "greater_equal": operator.ge, "greater": operator.gt, "<=": operator.le, "<": operator.lt, ">=": operator.ge, ">": operator.gt}

    def build():
        ev = evaluator(repo)
        ev.instantiate = {"Polygon"}
        ev.assume_valid = True
        o = ev.apply(ClassRef(poly), [V], {}, poly.node, poly.mod)
        if not isinstance(o, Obj):
            raise AnalysisError("Polygon(vertices) could not be evaluated")
        return ev, o

    # ---- the exported geometry
    so = repo.find_prop(poly, "shapely_object")
    try:
        ev, o = build()
        g = ev.getattr(o, "shapely_object", poly.node, poly.mod)
        bad = None if polygon_of_ring(g) else "is %s" % show(g)
    except _Raise as x:
        bad = "raises %s" % x.what
    except Undecided as x:
        raise AnalysisError("Polygon.shapely_object: %s" % x)
    anchor = (so[1].get("get") if so and so[1] else None) or poly.methods["__init__"]
    res.check(RULE, "Polygon.shapely_object: the polygon of the vertex ring", bad is None, poly.mod, anchor, "Polygon.shapely_object %s" % bad, "the exported geometry is not built from the polygon's vertices", qualname="Polygon.shapely_object")

    # ---- the predicate
    for label, coords, closed_truth, open_truth, want in CASES:
        ev, o = build()

        def side(v):
            c = corner(v)
            if c is not None:
                return [t[0] if c == "lo" else t[2] for t in coords]
            if v is P:
                return [t[1] for t in coords]
            raise Undecided("comparison with %s" % show(v))

        def cmp(op):
            def f(a, k):
                out = ListV([OPS[op](x, y) for x, y in zip(side(a[0]), side(a[1]))])
                out.ext_types = {"ndarray"}
                return out

            return f

        for nm in ("less_equal", "less", "greater_equal", "greater"):
            ev.model_calls["numpy.%s" % nm] = cmp(nm)
        ev.oracle = lambda kind, a, b: cmp({"LtE": "<=", "Lt": "<", "GtE": ">=", "Gt": ">"}[kind])([a, b], {}) if kind in ("LtE", "Lt", "GtE", "Gt") else None
        ev.model_calls["numpy.all"] = lambda a, k: all(a[0].items) if isinstance(a[0], ListV) else (_ for _ in ()).throw(Undecided("numpy.all of %s" % show(a[0])))
        ev.model_calls["numpy.any"] = lambda a, k: any(a[0].items) if isinstance(a[0], ListV) else (_ for _ in ()).throw(Undecided("numpy.any of %s" % show(a[0])))

        def predicate(truth):
            def f(a, k):
                recv, arg = a[0], (a[1] if len(a) > 1 else None)
                if not polygon_of_ring(recv):
                    raise Undecided("geometry predicate on %s" % show(recv))
                if not (isinstance(arg, Ctor) and arg.name.split(".")[-1] == "Point" and list(arg.args.values()) == [P]):
                    raise Undecided("geometry predicate with %s" % show(arg))
                return truth

            return f

        for nm, truth in (("intersects", closed_truth), ("covers", closed_truth), ("contains", open_truth)):
            ev.model_calls[".%s()" % nm] = predicate(truth)
        bad = None
        try:
            del partial[:]
            r = ev.call_fn(ev.bind(cp, poly, o), [P], {}, cp)
            got = ev.truth(r, cp)
            if partial:
                bad = "pre-filters with the bounding box of %s, a part of the vertices: a vertex of a ring given open is left out of the box" % partial[0]
            elif got is not want:
                bad = "answers %s, the closed ring %s it" % (got, "contains" if want else "does not contain")
        except _Raise as x:
            bad = "raises %s" % x.what
        except Undecided as x:
            raise AnalysisError("Polygon.contains_point [%s]: %s" % (label, x))
        res.check(RULE, "Polygon.contains_point [%s]: the answer of the closed vertex ring" % label, bad is None, poly.mod, cp, "Polygon.contains_point [%s] %s" % (label, bad), "the containment predicate and the exported geometry of a polygon do not denote the same set (a bounding-box pre-filter that is not the box of the vertices, or an open predicate)", qualname="Polygon.contains_point")


# --------------------------------------------------------------------------- the lanelet polygon
def lanelet_polygon_rule(repo, res, RULE="G2-INDEX"):
    """Wherever a Lanelet (re)builds its polygon — constructor, translate_rotate, convert_to_2d — the polygon it holds
    afterwards is Polygon(concatenate(right boundary, reversed left boundary)) of the boundaries it holds *then*."""
    lan = repo.cls(LA, "Lanelet")

    def array(label):
        return Ctor("numpy.array", {"arg0": Sym(label, "num")}, kind="call")

    def judge(me):
        p = me.fields.get("_polygon")
        R, L = me.fields.get("_right_vertices"), me.fields.get("_left_vertices")
        if not (isinstance(p, Ctor) and p.name == "Polygon" and len(p.args) == 1):
            return "the polygon is %s" % show(p)
        c = list(p.args.values())[0]
        if not (isinstance(c, Ctor) and c.name in ("numpy.concatenate", "numpy.vstack", "numpy.row_stack") and c.args):
            return "the polygon is built from %s" % show(c)
        parts = list(c.args.values())[0]
        items = parts.items if isinstance(parts, ListV) else None
        if items is None or len(items) != 2:
            return "the polygon ring is %s" % show(parts)
        first, second = items
        if first is not R:
            return "the ring starts with %s, not with the right boundary the lanelet holds" % show(first)
        rev = None
        if isinstance(second, Ctor) and second.name in ("numpy.flip", "numpy.flipud") and list(second.args.values())[0] is L:
            ax = second.args.get("axis", second.args.get("arg1", 0 if second.name == "numpy.flipud" else NONE))
            rev = ax in (0,)
        elif isinstance(second, Ctor) and second.name == ".slice" and second.args.get("of") is L:
            rev = second.args.get("lo") is NONE and second.args.get("hi") is NONE and second.args.get("step") == -1
        if not rev:
            return "the ring continues with %s, not with the reversed left boundary the lanelet holds" % show(second)
        return None

    def world():
        f = {"_left_vertices": array("left"), "_center_vertices": array("center"), "_right_vertices": array("right"), "_lanelet_id": 7, "_stop_line": NONE, "_distance": NONE, "_inner_distance": NONE, "_polygon": Obj(None, {}, closed=True, label="old polygon")}
        return Obj(lan, f, label="lanelet")

    routes = []
    init = lan.methods.get("__init__")
    if init is None:
        raise AnalysisError("Lanelet.__init__ missing")
    routes.append(("__init__", init, None))
    for mn in ("translate_rotate", "convert_to_2d"):
        fn = lan.methods.get(mn)
        if fn is None:
            raise AnalysisError("Lanelet.%s missing" % mn)
        routes.append((mn, fn, mn))
    for label, fn, mn in routes:
        ev = evaluator(repo)
        ev.stubs.pop("Lanelet.translate_rotate", None)
        ev.assume_valid = True
        ev.pure_modules |= {"commonroad", "warnings"}
        qn = "Lanelet.%s" % label
        bad = None
        try:
            if mn is None:
                ev.instantiate = {"Lanelet"}
                me = ev.apply(ClassRef(lan), [array("left"), array("center"), array("right"), 7], {}, lan.node, lan.mod)
            else:
                me = world()
                args = [Sym("translation", "num"), Sym("angle", "num")] if mn == "translate_rotate" else []
                before = (me.fields["_left_vertices"], me.fields["_right_vertices"])
                ev.call_fn(ev.bind(fn, lan, me), args, {}, fn)
                if mn == "translate_rotate" and (me.fields["_left_vertices"] is before[0] or me.fields["_right_vertices"] is before[1]):
                    raise Undecided("the boundaries are not replaced by translate_rotate")
            bad = judge(me)
        except _Raise as x:
            bad = "raises %s" % x.what
        except Undecided as x:
            raise AnalysisError("%s: %s" % (qn, x))
        res.check(RULE, "%s: polygon = right boundary + reversed left boundary, as held afterwards" % qn, bad is None, lan.mod, fn, "%s: %s" % (qn, bad), "the lanelet polygon is not the ring right boundary followed by the reversed left boundary of the lanelet as it is now (self-intersecting, wrong area, or stale)", qualname=qn)


# --------------------------------------------------------------------------- the scenario's removal of lanelets
def scenario_remove_rule(repo, res, RULE="CACHE-FRESH"):
    """Scenario.remove_lanelet(single / list, with lanelets the scenario does not hold anywhere in the list): the
    network's spatial index mirrors the remaining lanelets afterwards (look-ups by position and by shape answer as on a
    freshly built network)."""
    SC_ = "commonroad/scenario/scenario.py"
    sc = repo.cls(SC_, "Scenario")
    fn = sc.methods.get("remove_lanelet")
    if fn is None:
        raise AnalysisError("Scenario.remove_lanelet missing")
    qn = "Scenario.remove_lanelet"
    cases = [("one lanelet", [11], False), ("two lanelets", [11, 25], True), ("a lanelet and then one the scenario does not hold", [11, 77], True), ("a lanelet the scenario does not hold and then one it holds", [77, 25], True), ("all lanelets", [11, 25, 40], True)]
    for label, ids, as_list in cases:
        ls = {k: lanelet(repo, k) for k in (11, 25, 40)}
        for l in ls.values():
            l.fields.setdefault("_traffic_signs", SetV([]))
            l.fields.setdefault("_traffic_lights", SetV([]))
        n = network(repo, list(ls.values()))
        me = Obj(sc, {"_lanelet_network": n, "_id_set": SetV([11, 25, 40]), "_static_obstacles": DictV(), "_dynamic_obstacles": DictV(), "_environment_obstacle": DictV(), "_phantom_obstacle": DictV()}, label="scenario")
        ev = evaluator(repo)
        ev.stubs["Scenario.remove_hanging_lanelet_members"] = lambda a: NONE
        ev.pure_modules |= {"warnings"}
        objs = [ls.get(k) or lanelet(repo, k) for k in ids]
        arg = ListV(objs) if as_list else objs[0]
        bad = []
        try:
            ev.call_fn(ev.bind(fn, sc, me), [arg], {}, fn)
            bad = invariant(n)
            left = set(n.fields["_lanelets"].d)
            want = {11, 25, 40} - set(ids)
            if left != want:
                bad.append("the network holds lanelets %s, expected %s" % (sorted(left), sorted(want)))
        except _Raise as x:
            bad.append("raises %s" % x.what)
        except Undecided as x:
            raise AnalysisError("%s [%s]: %s" % (qn, label, x))
        res.check(RULE, "%s [%s]: the spatial index mirrors the remaining lanelets" % (qn, label), not bad, sc.mod, fn, "%s [%s]: %s" % (qn, label, "; ".join(bad[:3])), "after removing lanelets through the scenario the network's spatial index is stale: look-ups by position / shape still report removed lanelets", qualname=qn)

"""C06 G2-INDEX decided by abstract evaluation: the spatial index of a lanelet network mirrors its lanelets.

INDEX INVARIANT of a network:  _buffered_polygons maps exactly the ids of _lanelets (whose polygon geometry is a
shapely polygon) to *that lanelet's* polygon geometry; _lanelet_id_index_by_id maps id(geometry) back to the lanelet
id for exactly those geometries; _strtee is an STRtree over exactly those geometries.

Every route that builds or changes a network (constructor + add_lanelet, remove_lanelet, _create_strtree itself,
translate_rotate, pickling hooks, deep copy, create_from_lanelet_list) is evaluated over the AST on a small symbolic
network and the invariant is checked on the resulting object — whatever the code looks like (comprehensions or loops,
helpers, early returns, locals).  shapely, numpy and the reference clean-ups are uninterpreted.
"""
from ..core import AnalysisError
from ..strdom import NONE, ClassRef, Ctor, DictV, Ev, FuncV, IdV, ListV, Obj, Str, Sym, Undecided, _Raise, same, show

LA = "commonroad/scenario/lanelet.py"
CLEANUPS = ("cleanup_lanelet_references", "cleanup_traffic_light_references", "cleanup_traffic_sign_references")


def geometry(label, valid=True):
    g = Obj(None, {}, closed=True, label=label)
    g.ext_types = {"Polygon", "ShapelyPolygon"} if valid else set()
    return g


def lanelet(repo, k, valid=True):
    lan = repo.cls(LA, "Lanelet")
    g = geometry("geometry of lanelet %d" % k, valid)
    poly = Obj(None, {"shapely_object": g, "_shapely_polygon": g}, closed=True, label="polygon of lanelet %d" % k)
    return Obj(lan, {"_lanelet_id": k, "_polygon": poly}, label="lanelet %d" % k)


def network(repo, lanelets, indexed=True):
    net = repo.cls(LA, "LaneletNetwork")
    ev = evaluator(repo)
    o = ev.apply(ClassRef(net), [], {}, net.node, net.mod)
    if not isinstance(o, Obj):
        raise AnalysisError("LaneletNetwork() could not be evaluated")
    for l in lanelets:
        o.fields["_lanelets"].d[l.fields["_lanelet_id"]] = l
        o.fields["_buffered_polygons"].d[l.fields["_lanelet_id"]] = l.fields["_polygon"].fields["shapely_object"]
    if indexed:
        geos = [l.fields["_polygon"].fields["shapely_object"] for l in lanelets]
        o.fields["_lanelet_id_index_by_id"] = DictV({ev.key_of(IdV(g)): l.fields["_lanelet_id"] for g, l in zip(geos, lanelets)})
        o.fields["_strtee"] = Ctor("shapely.strtree.STRtree", {"arg0": ListV(geos)}, kind="call")
    o.label = "network"
    return o


def evaluator(repo):
    ev = Ev(repo)
    ev.pure_modules = {"shapely", "np", "numpy", "math", "STRtree"}
    ev.instantiate = {"LaneletNetwork"}
    for c in CLEANUPS:
        ev.stubs["LaneletNetwork.%s" % c] = lambda a: NONE
    ev.stubs["Lanelet.translate_rotate"] = lambda a: NONE
    ev.stubs["TrafficSign.translate_rotate"] = lambda a: NONE
    ev.stubs["TrafficLight.translate_rotate"] = lambda a: NONE
    return ev


def invariant(net, tree_required=True):
    """list of violations of the index invariant on the evaluated network object"""
    bad = []
    f = net.fields
    L = f.get("_lanelets")
    B = f.get("_buffered_polygons")
    M = f.get("_lanelet_id_index_by_id")
    T = f.get("_strtee")
    if not isinstance(L, DictV) or not isinstance(B, DictV):
        return ["_lanelets / _buffered_polygons are %s / %s" % (show(L), show(B))]
    valid = {k: l for k, l in L.d.items() if "Polygon" in getattr(l.fields["_polygon"].fields["shapely_object"], "ext_types", ())}
    if set(B.d) != set(valid):
        bad.append("index holds ids %s, lanelets with a polygon are %s" % (sorted(B.d), sorted(valid)))
    for k in set(B.d) & set(valid):
        if B.d[k] is not valid[k].fields["_polygon"].fields["shapely_object"]:
            bad.append("index[%s] is %s, not the geometry of lanelet %s" % (k, show(B.d[k]), k))
    if tree_required:
        if not isinstance(M, DictV):
            bad.append("id map is %s" % show(M))
        else:
            want = {("id", id(g)): k for k, g in B.d.items()}
            if M.d != want:
                bad.append("id map does not map id(geometry) -> lanelet id for exactly the indexed geometries (%d entries, %d indexed)" % (len(M.d), len(B.d)))
        if not (isinstance(T, Ctor) and T.name.endswith("STRtree") and len(T.args) == 1):
            bad.append("tree is %s" % show(T))
        else:
            geos = list(T.args.values())[0]
            items = geos.items if isinstance(geos, ListV) else None
            if items is None or sorted(id(x) for x in items) != sorted(id(g) for g in B.d.values()):
                bad.append("tree is built over %s, the index holds %s" % (show(geos), "[%s]" % ", ".join(show(g) for g in B.d.values())))
    return bad


def run_route(repo, res, name, label, body, fn_node):
    net_cls = repo.cls(LA, "LaneletNetwork")
    qn = "LaneletNetwork.%s" % name
    try:
        bad = body()
    except _Raise as x:
        bad = ["raises %s" % x.what]
    except Undecided as x:
        raise AnalysisError("%s [%s]: %s" % (qn, label, x))
    res.check("G2-INDEX", "%s [%s]: index invariant holds afterwards" % (qn, label), not bad, net_cls.mod, fn_node, "%s [%s]: %s" % (qn, label, "; ".join(bad[:3])), "after this operation the spatial index does not mirror the lanelets: look-ups by position / shape miss lanelets, report removed ones, or map hits to the wrong id", qualname=qn)


def index_rules(repo, res):
    net_cls = repo.cls(LA, "LaneletNetwork")

    def method(name):
        fn = net_cls.methods.get(name)
        if fn is None:
            raise AnalysisError("LaneletNetwork.%s missing" % name)
        return fn

    def call(ev, name, recv, args, kwargs=None):
        fn = method(name)
        return ev.call_fn(ev.bind(fn, net_cls, recv), args, kwargs or {}, fn)

    # _create_strtree: rebuilds id map and tree from the buffered polygons, dropping non-polygons
    def r_create():
        ls = [lanelet(repo, 11), lanelet(repo, 25), lanelet(repo, 40, valid=False)]
        n = network(repo, ls, indexed=False)
        call(evaluator(repo), "_create_strtree", n, [])
        return invariant(n)

    run_route(repo, res, "_create_strtree", "two polygons and one lanelet whose geometry is not a polygon", r_create, method("_create_strtree"))

    # add_lanelet
    def r_add(rtree):
        def body():
            n = network(repo, [lanelet(repo, 11), lanelet(repo, 25)])
            new = lanelet(repo, 40)
            r = call(evaluator(repo), "add_lanelet", n, [new], {"rtree": rtree})
            bad = invariant(n, tree_required=rtree)
            if r is not True:
                bad.append("returns %s for a new lanelet" % show(r))
            if n.fields["_lanelets"].d.get(40) is not new:
                bad.append("the lanelet is not stored under its id")
            return bad

        return body

    run_route(repo, res, "add_lanelet", "new lanelet, index rebuilt", r_add(True), method("add_lanelet"))
    run_route(repo, res, "add_lanelet", "new lanelet, rebuild deferred", r_add(False), method("add_lanelet"))

    def r_add_dup():
        n = network(repo, [lanelet(repo, 11), lanelet(repo, 25)])
        before = dict(n.fields["_lanelets"].d)
        r = call(evaluator(repo), "add_lanelet", n, [lanelet(repo, 25)], {"rtree": True})
        bad = invariant(n)
        if r is not False:
            bad.append("returns %s for an id that exists" % show(r))
        if n.fields["_lanelets"].d != before:
            bad.append("an existing lanelet is replaced")
        return bad

    run_route(repo, res, "add_lanelet", "id already in the network", r_add_dup, method("add_lanelet"))

    # remove_lanelet
    def r_remove(present, rtree):
        def body():
            n = network(repo, [lanelet(repo, 11), lanelet(repo, 25)])
            call(evaluator(repo), "remove_lanelet", n, [25 if present else 7], {"rtree": rtree})
            bad = invariant(n, tree_required=rtree or not present)
            if present and 25 in n.fields["_lanelets"].d:
                bad.append("the lanelet is still stored")
            return bad

        return body

    run_route(repo, res, "remove_lanelet", "lanelet of the network, index rebuilt", r_remove(True, True), method("remove_lanelet"))
    run_route(repo, res, "remove_lanelet", "lanelet of the network, rebuild deferred", r_remove(True, False), method("remove_lanelet"))
    run_route(repo, res, "remove_lanelet", "unknown id", r_remove(False, True), method("remove_lanelet"))

    # translate_rotate: every lanelet has a new polygon afterwards
    def r_move():
        ls = [lanelet(repo, 11), lanelet(repo, 25)]
        n = network(repo, ls)
        ev = evaluator(repo)

        def moved(a):
            l = a.get("self")
            g = geometry("moved geometry of %r" % l)
            l.fields["_polygon"] = Obj(None, {"shapely_object": g, "_shapely_polygon": g}, closed=True, label="moved polygon of %r" % l)
            return NONE

        ev.stubs["Lanelet.translate_rotate"] = moved
        call(ev, "translate_rotate", n, [Sym("translation", "num"), Sym("angle", "num")])
        return invariant(n)

    run_route(repo, res, "translate_rotate", "two lanelets, each gets a new polygon", r_move, method("translate_rotate"))

    # pickling hooks
    def r_getstate():
        n = network(repo, [lanelet(repo, 11), lanelet(repo, 25)])
        keys = set(n.fields)
        st = call(evaluator(repo), "__getstate__", n, [])
        bad = invariant(n)
        if not isinstance(st, DictV):
            return bad + ["returns %s" % show(st)]
        if "_strtee" in st.d:
            bad.append("the (unpicklable) tree is part of the pickled state")
        if set(st.d) | {"_strtee"} != keys:
            bad.append("pickled state has fields %s of %s" % (sorted(st.d), sorted(keys)))
        if set(n.fields) != keys:
            bad.append("the live network lost %s" % sorted(keys - set(n.fields)))
        return bad

    run_route(repo, res, "__getstate__", "network with two lanelets", r_getstate, method("__getstate__"))

    def r_setstate():
        src = network(repo, [lanelet(repo, 11), lanelet(repo, 25)])
        state = DictV({k: v for k, v in src.fields.items() if k != "_strtee"})
        tgt = Obj(net_cls, {}, closed=True, label="unpickled network")
        call(evaluator(repo), "__setstate__", tgt, [state])
        return invariant(tgt)

    run_route(repo, res, "__setstate__", "state of a network with two lanelets", r_setstate, method("__setstate__"))

    def r_deepcopy():
        n = network(repo, [lanelet(repo, 11), lanelet(repo, 25)])
        r = call(evaluator(repo), "__deepcopy__", n, [DictV()])
        bad = ["original: " + b for b in invariant(n)]
        if not isinstance(r, Obj) or r is n:
            return bad + ["returns %s" % show(r)]
        return bad + ["copy: " + b for b in invariant(r)]

    run_route(repo, res, "__deepcopy__", "network with two lanelets: copy and original", r_deepcopy, method("__deepcopy__"))

    def r_from_list(cleanup):
        def body():
            ev = evaluator(repo)
            fn = method("create_from_lanelet_list")
            r = ev.call_fn(ev.bind(fn, net_cls, None, via_class=ClassRef(net_cls)), [ListV([lanelet(repo, 11), lanelet(repo, 25)])], {"cleanup_ids": cleanup}, fn)
            if not isinstance(r, Obj):
                return ["returns %s" % show(r)]
            bad = invariant(r)
            if set(r.fields["_lanelets"].d) != {11, 25}:
                bad.append("network holds lanelets %s" % sorted(r.fields["_lanelets"].d))
            return bad

        return body

    run_route(repo, res, "create_from_lanelet_list", "two lanelets, with clean-up", r_from_list(True), method("create_from_lanelet_list"))
    run_route(repo, res, "create_from_lanelet_list", "two lanelets, without clean-up", r_from_list(False), method("create_from_lanelet_list"))

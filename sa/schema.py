"""Readers for the shipped schema files (parsed as data with xml.etree; nothing of /repo is executed).

XSD: per named complexType / element: compositor (sequence / all / choice), ordered children
(name, type, minOccurs, maxOccurs), attributes (name, type, use), enumerations of simpleTypes.
.proto: messages (fields: name, label, type, number, oneof) and enums.
"""
import re
import xml.etree.ElementTree as ET

from .core import AnalysisError

XS = "{http://www.w3.org/2001/XMLSchema}"


class XType:
    def __init__(self, name):
        self.name = name
        self.compositor = None
        self.children = []  # (name, type, min, max, inline XType or None)
        self.attributes = []  # (name, type, use)
        self.base = None
        self.choice_groups = []  # lists of child names under an xs:choice
        self.single_choices = []  # those of them whose xs:choice may be taken once (maxOccurs = 1): one alternative only

    def child_names(self):
        return [c[0] for c in self.children]

    def __repr__(self):
        return "<XType %s %s %s>" % (self.name, self.compositor, self.child_names())


class XSD:
    def __init__(self, text, rel="<xsd>"):
        try:
            self.root = ET.fromstring(text)
        except ET.ParseError as e:
            raise AnalysisError("cannot parse %s: %s" % (rel, e))
        self.types = {}
        self.elements = {}
        self.enums = {}
        self.simple_base = {}
        self.groups = {}
        for n in self.root:
            if n.tag == XS + "complexType" and n.get("name"):
                self.types[n.get("name")] = self._ctype(n, n.get("name"))
            elif n.tag == XS + "simpleType" and n.get("name"):
                self._stype(n)
            elif n.tag == XS + "element" and n.get("name"):
                self.elements[n.get("name")] = self._element(n)
            elif n.tag == XS + "group" and n.get("name"):
                self.groups[n.get("name")] = n

    def _stype(self, n):
        name = n.get("name")
        vals = []
        for r in n.iter(XS + "restriction"):
            self.simple_base[name] = r.get("base")
            for e in r.findall(XS + "enumeration"):
                vals.append(e.get("value"))
        for u in n.iter(XS + "union"):
            self.simple_base[name] = "union:" + (u.get("memberTypes") or "")
        if vals:
            self.enums[name] = vals

    def _element(self, n):
        t = n.get("type")
        st = n.find(XS + "simpleType")
        if t is None and st is not None:
            # an anonymous simple type written inside the element: registered under a name of its own
            self._anon = getattr(self, "_anon", 0) + 1
            t = "%s.inline%d" % (n.get("name"), self._anon)
            st.set("name", t)
            self._stype(st)
        inline = n.find(XS + "complexType")
        x = self._ctype(inline, n.get("name")) if inline is not None else None
        return (n.get("name"), t, n.get("minOccurs", "1"), n.get("maxOccurs", "1"), x)

    def _ctype(self, n, name):
        x = XType(name)
        ext = n.find(XS + "complexContent/" + XS + "extension")
        body = n
        if ext is not None:
            x.base = ext.get("base")
            body = ext
        sc = n.find(XS + "simpleContent/" + XS + "extension")
        if sc is not None:
            x.base = sc.get("base")
            body = sc
        for comp in ("sequence", "all", "choice"):
            c = body.find(XS + comp)
            if c is not None:
                x.compositor = comp
                self._collect(c, x, comp == "choice")
                break
        g = body.find(XS + "group")
        if g is not None and x.compositor is None:
            x.compositor = "group:" + g.get("ref")
        for a in body.findall(XS + "attribute"):
            x.attributes.append((a.get("name"), a.get("type"), a.get("use", "optional")))
        return x

    def _collect(self, comp, x, in_choice, min_override=None):
        group = []
        for c in comp:
            if c.tag == XS + "element":
                e = self._element(c) if c.get("name") else (c.get("ref"), None, c.get("minOccurs", "1"), c.get("maxOccurs", "1"), None)
                if in_choice or min_override == "0":
                    e = (e[0], e[1], "0", e[3], e[4])
                x.children.append(e)
                group.append(e[0])
            elif c.tag in (XS + "sequence", XS + "choice", XS + "all"):
                mo = c.get("minOccurs")
                self._collect(c, x, c.tag == XS + "choice" or in_choice, "0" if (mo == "0" or min_override == "0") else None)
            elif c.tag == XS + "group":
                ref = self.groups.get(c.get("ref"))
                if ref is not None:
                    for cc in ref:
                        if cc.tag in (XS + "sequence", XS + "choice", XS + "all"):
                            self._collect(cc, x, cc.tag == XS + "choice" or in_choice, min_override)
        if in_choice and group:
            x.choice_groups.append(group)
            if getattr(comp, "tag", None) == XS + "choice" and comp.get("maxOccurs", "1") == "1":
                x.single_choices.append(group)

    def type_of(self, name):
        return self.types.get(name)

    def resolve_children(self, t):
        """children including those of the base type (base first)."""
        out = []
        if t.base and t.base in self.types:
            out += self.resolve_children(self.types[t.base])
        return out + list(t.children)

    def numeric_kind(self, tname, depth=0):
        """'int' | 'decimal' | 'float' | None for a (simple) type name."""
        if tname is None or depth > 6:
            return None
        t = tname.split(":")[-1]
        if tname.startswith("xs:"):
            if t in ("int", "integer", "nonNegativeInteger", "positiveInteger", "long", "short", "unsignedInt"):
                return "int"
            if t == "decimal":
                return "decimal"
            if t in ("float", "double"):
                return "float"
            return None
        b = self.simple_base.get(t)
        if b and not b.startswith("union:"):
            return self.numeric_kind(b, depth + 1)
        return None


# --------------------------------------------------------------------------- .proto


class ProtoMessage:
    def __init__(self, name, file):
        self.name, self.file = name, file
        self.fields = {}  # name -> dict(label, type, number, oneof)
        self.order = []


class Protos:
    def __init__(self, texts):
        """texts: {relative path: source}"""
        self.messages = {}
        self.enums = {}
        for rel, src in texts.items():
            self._parse(rel, src)

    def _parse(self, rel, src):
        src = re.sub(r"//[^\n]*", "", src)
        src = re.sub(r"/\*.*?\*/", "", src, flags=re.S)
        toks = re.findall(r"[A-Za-z_][A-Za-z0-9_.]*|\d+|[{}=;<>,\[\]]|\"[^\"]*\"", src)
        i = 0
        stack = []  # (kind, name)

        def qual(n):
            return ".".join([s[1] for s in stack if s[0] in ("message", "enum")] + [n])

        while i < len(toks):
            t = toks[i]
            if t == "message" and i + 2 < len(toks) and toks[i + 2] == "{":
                name = qual(toks[i + 1])
                self.messages[name] = ProtoMessage(name, rel)
                stack.append(("message", toks[i + 1]))
                i += 3
                continue
            if t == "enum" and i + 2 < len(toks) and toks[i + 2] == "{":
                name = qual(toks[i + 1])
                self.enums[name] = {}
                stack.append(("enum", toks[i + 1]))
                i += 3
                continue
            if t == "oneof" and i + 2 < len(toks) and toks[i + 2] == "{":
                stack.append(("oneof", toks[i + 1]))
                i += 3
                continue
            if t == "}":
                if stack:
                    stack.pop()
                i += 1
                continue
            if stack and stack[-1][0] == "enum":
                # NAME = number ;
                if i + 3 < len(toks) and toks[i + 1] == "=" and toks[i + 2].isdigit():
                    en = ".".join(s[1] for s in stack if s[0] in ("message", "enum"))
                    self.enums[en][t] = int(toks[i + 2])
                    i += 3
                    while i < len(toks) and toks[i] != ";":
                        i += 1
                    i += 1
                    continue
            if stack and stack[-1][0] in ("message", "oneof") and t not in ("syntax", "import", "package", "option", "reserved"):
                # [label] type name = number [opts] ;
                j = i
                label = None
                if toks[j] in ("optional", "repeated", "required"):
                    label = toks[j]
                    j += 1
                if j + 3 < len(toks) and toks[j + 2] == "=" and toks[j + 3].isdigit():
                    ftype, fname, num = toks[j], toks[j + 1], int(toks[j + 3])
                    mname = ".".join(s[1] for s in stack if s[0] in ("message", "enum"))
                    oneof = stack[-1][1] if stack[-1][0] == "oneof" else None
                    m = self.messages[mname]
                    m.fields[fname] = {"label": label, "type": ftype, "number": num, "oneof": oneof}
                    m.order.append(fname)
                    i = j + 4
                    while i < len(toks) and toks[i] != ";":
                        i += 1
                    i += 1
                    continue
            # skip statement
            while i < len(toks) and toks[i] not in (";", "{", "}"):
                i += 1
            if i < len(toks) and toks[i] == ";":
                i += 1
            elif i < len(toks) and toks[i] == "{":
                stack.append(("block", "?"))
                i += 1

    def message(self, name):
        if name in self.messages:
            return self.messages[name]
        cands = [m for k, m in self.messages.items() if k.split(".")[-1] == name]
        if len(cands) == 1:
            return cands[0]
        return None

    def enum(self, name):
        if name in self.enums:
            return self.enums[name]
        cands = [v for k, v in self.enums.items() if k.split(".")[-1] == name or k.endswith("." + name)]
        if len(cands) == 1:
            return cands[0]
        return None

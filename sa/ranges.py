"""A small forward interval-domain abstract interpreter for straight-line float code.

Values are closed real intervals [lo, hi] (+-inf allowed).  Supported: constants, names, + - * /,
unary minus, abs, min/max, math.fmod(x, c), np.arctan2(np.sin(x), np.cos(x)) (= wrap to [-pi, pi]),
calls of repository functions / same-class methods / property getters (inlined syntactically:
parameters are replaced by the argument expressions, depth bounded), if-statements with refinement
on `name < const`-style tests, augmented assignment, assert (recorded as proof obligations).
Relational facts (e.g. "self.end - self.start" in [0, 2pi)) are supplied by the caller as
canonical texts and matched before an expression is decomposed.
"""
import ast
import copy
import math

from .core import norm

INF = float("inf")
TOP = (-INF, INF)
PI = math.pi


def join(a, b):
    if a is None:
        return b
    if b is None:
        return a
    return (min(a[0], b[0]), max(a[1], b[1]))


def add(a, b):
    return (a[0] + b[0], a[1] + b[1])


def sub(a, b):
    return (a[0] - b[1], a[1] - b[0])


def mul(a, b):
    c = []
    for x in a:
        for y in b:
            c.append(0.0 if (x == 0 or y == 0) else x * y)
    return (min(c), max(c))


def fmod(a, c):
    """math.fmod(x, c), c > 0 constant: the result has the sign of x and magnitude < c."""
    lo, hi = a
    if lo >= 0:
        return (0.0, hi) if hi < c else (0.0, c)
    if hi <= 0:
        return (lo, 0.0) if lo > -c else (-c, 0.0)
    return (max(lo, -c), min(hi, c))


def wrap_pi(a):
    lo, hi = a
    if lo > -PI and hi <= PI:
        return a
    return (-PI, PI)


def ctext(e):
    return norm(e).replace("self._", "self.").replace("other._", "other.")


class _Subst(ast.NodeTransformer):
    def __init__(self, mapping):
        self.mapping = mapping

    def visit_Name(self, n):
        if n.id in self.mapping:
            return copy.deepcopy(self.mapping[n.id])
        return n


class Interp:
    def __init__(self, repo, mod, cls=None, facts=None, max_depth=5):
        self.repo, self.mod, self.cls = repo, mod, cls
        self.facts = dict(facts or {})
        self.max_depth = max_depth
        self.asserts = []  # (node, text, proved)
        self.returns = []  # (node, value node, env)
        self._tmp = 0

    # ---- constants of modules
    def const_name(self, name, mod, seen=()):
        if (mod.rel, name) in seen:
            return None
        seen = seen + ((mod.rel, name),)
        if name in mod.assigns:
            v = self.eval(mod.assigns[name], {}, self.max_depth, mod)
            if v[0] == v[1]:
                return v
        if name in mod.imports:
            src, orig = mod.imports[name]
            m = self.repo._by_modname.get(src) or self.repo.modules.get(src.replace(".", "/") + "/__init__.py")
            if m is not None and orig:
                return self.const_name(orig, m, seen)
        return None

    # ---- expressions
    def eval(self, e, env, depth, mod=None):
        mod = mod or self.mod
        t = ctext(e)
        if t in self.facts:
            return self.facts[t]
        if isinstance(e, ast.Constant):
            if isinstance(e.value, (int, float)) and not isinstance(e.value, bool):
                return (float(e.value), float(e.value))
            return TOP
        if isinstance(e, ast.Name):
            if e.id in env:
                return env[e.id]
            c = self.const_name(e.id, mod)
            return c if c is not None else TOP
        if isinstance(e, ast.Attribute):
            if norm(e) in ("math.pi", "np.pi", "numpy.pi"):
                return (PI, PI)
            if isinstance(e.value, ast.Name) and e.value.id in ("self", "other") and self.cls is not None and depth < self.max_depth:
                pc, p = self.repo.find_prop(self.cls, e.attr)
                if p is not None and "get" in p:
                    return self.inline(p["get"], {p["get"].args.args[0].arg: e.value}, env, depth + 1, pc.mod)
            return TOP
        if isinstance(e, ast.UnaryOp) and isinstance(e.op, ast.USub):
            v = self.eval(e.operand, env, depth, mod)
            return (-v[1], -v[0])
        if isinstance(e, ast.BinOp):
            a = self.eval(e.left, env, depth, mod)
            b = self.eval(e.right, env, depth, mod)
            if isinstance(e.op, ast.Add):
                return add(a, b)
            if isinstance(e.op, ast.Sub):
                return sub(a, b)
            if isinstance(e.op, ast.Mult):
                return mul(a, b)
            if isinstance(e.op, ast.Div) and (b[0] > 0 or b[1] < 0):
                return mul(a, (1.0 / b[1], 1.0 / b[0]))
            return TOP
        if isinstance(e, ast.IfExp):
            # each arm under what its side of the test says about the tested name (as for an if statement)
            ea, eb = self.refine(e.test, env, True, depth), self.refine(e.test, env, False, depth)
            a = self.eval(e.body, ea, depth, mod) if ea is not None else None
            b = self.eval(e.orelse, eb, depth, mod) if eb is not None else None
            if a is None or b is None:
                return a if b is None else b
            return join(a, b)
        if isinstance(e, ast.Call):
            fn = norm(e.func)
            args = e.args
            if fn in ("abs", "np.abs", "math.fabs") and args:
                v = self.eval(args[0], env, depth, mod)
                lo = 0.0 if v[0] <= 0 <= v[1] else min(abs(v[0]), abs(v[1]))
                return (lo, max(abs(v[0]), abs(v[1])))
            if fn in ("min", "max") and len(args) >= 2:
                vs = [self.eval(a, env, depth, mod) for a in args]
                f = min if fn == "min" else max
                return (f(v[0] for v in vs), f(v[1] for v in vs))
            if fn == "math.fmod" and len(args) == 2:
                c = self.eval(args[1], env, depth, mod)
                if c[0] == c[1] and c[0] > 0:
                    return fmod(self.eval(args[0], env, depth, mod), c[0])
                return TOP
            if fn in ("np.arctan2", "math.atan2", "numpy.arctan2") and len(args) == 2:
                s, c = args
                if isinstance(s, ast.Call) and isinstance(c, ast.Call) and norm(s.func).endswith("sin") and norm(c.func).endswith("cos") and s.args and c.args and norm(s.args[0]) == norm(c.args[0]):
                    return wrap_pi(self.eval(s.args[0], env, depth, mod))
                return (-PI, PI)
            if fn in ("float", "int") and args:
                return self.eval(args[0], env, depth, mod)
            if depth < self.max_depth:
                if isinstance(e.func, ast.Name):
                    target, tmod = mod.functions.get(e.func.id), mod
                    if target is None and e.func.id in mod.imports:
                        src, orig = mod.imports[e.func.id]
                        m2 = self.repo._by_modname.get(src)
                        if m2 is not None and orig in m2.functions:
                            target, tmod = m2.functions[orig], m2
                    if target is not None:
                        ps = [a.arg for a in target.args.args]
                        return self.inline(target, dict(zip(ps, args)), env, depth + 1, tmod, {k.arg: k.value for k in e.keywords})
                if isinstance(e.func, ast.Attribute) and isinstance(e.func.value, ast.Name) and e.func.value.id in ("self", "other") and self.cls is not None:
                    oc, m = self.repo.find_method(self.cls, e.func.attr)
                    if m is not None:
                        ps = [a.arg for a in m.args.args]
                        return self.inline(m, dict(zip(ps, [e.func.value] + list(args))), env, depth + 1, oc.mod, {k.arg: k.value for k in e.keywords})
            return TOP
        return TOP

    def inline(self, fn, argmap, env, depth, mod, kwargs=None):
        """Interpret the callee with parameters replaced by the argument expressions."""
        argmap = dict(argmap)
        argmap.update(kwargs or {})
        mapping = {}
        env2 = dict(env)
        for p, a in argmap.items():
            if isinstance(a, (ast.Name, ast.Attribute, ast.Constant)):
                mapping[p] = a
            else:
                self._tmp += 1
                tmp = "__arg%d" % self._tmp
                env2[tmp] = self.eval(a, env, depth)
                mapping[p] = ast.Name(id=tmp, ctx=ast.Load())
        body = [_Subst(mapping).visit(copy.deepcopy(s)) for s in fn.body]
        saved_mod = self.mod
        self.mod = mod
        try:
            out = self.run_body(body, env2, depth)
        finally:
            self.mod = saved_mod
        return out if out is not None else TOP

    # ---- statements
    def refine(self, test, env, pol, depth):
        if isinstance(test, ast.Compare) and len(test.ops) == 1 and isinstance(test.left, ast.Name) and test.left.id in env:
            c = self.eval(test.comparators[0], env, depth)
            if c[0] == c[1]:
                lo, hi = env[test.left.id]
                op = type(test.ops[0])
                if not pol:
                    op = {ast.Lt: ast.GtE, ast.LtE: ast.Gt, ast.Gt: ast.LtE, ast.GtE: ast.Lt}.get(op)
                if op in (ast.Lt, ast.LtE):
                    hi = min(hi, c[0])
                elif op in (ast.Gt, ast.GtE):
                    lo = max(lo, c[0])
                if lo > hi:
                    return None
                env = dict(env)
                env[test.left.id] = (lo, hi)
        return env

    def run_body(self, stmts, env, depth):
        """Join of the ranges of all numeric return values (None if nothing numeric is returned)."""
        ret = [None]

        def block(stmts, env):
            for s in stmts:
                if env is None:
                    return None
                if isinstance(s, (ast.Assign, ast.AnnAssign)):
                    tg = s.targets[0] if isinstance(s, ast.Assign) else s.target
                    if isinstance(tg, ast.Name) and s.value is not None:
                        v = self.eval(s.value, env, depth)
                        env = dict(env)
                        env[tg.id] = v
                elif isinstance(s, ast.AugAssign) and isinstance(s.target, ast.Name):
                    cur = env.get(s.target.id, TOP)
                    v = self.eval(s.value, env, depth)
                    env = dict(env)
                    env[s.target.id] = add(cur, v) if isinstance(s.op, ast.Add) else sub(cur, v) if isinstance(s.op, ast.Sub) else TOP
                elif isinstance(s, ast.If):
                    a = block(s.body, self.refine(s.test, env, True, depth))
                    b = block(s.orelse, self.refine(s.test, env, False, depth))
                    if a is None:
                        env = b
                    elif b is None:
                        env = a
                    else:
                        env = {k: join(a.get(k), b.get(k)) for k in set(a) | set(b)}
                elif isinstance(s, ast.Assert):
                    self.asserts.append((s, ctext(s.test), self.proved(s.test, env, depth)))
                elif isinstance(s, ast.Return):
                    if s.value is not None:
                        self.returns.append((s, s.value, dict(env)))
                        if not isinstance(s.value, (ast.Compare, ast.BoolOp)):
                            ret[0] = join(ret[0], self.eval(s.value, env, depth))
                    return None
                elif isinstance(s, ast.Raise):
                    return None
                elif isinstance(s, (ast.While, ast.For)):
                    assigned = {t.id for n in ast.walk(s) for t in ([n.target] if isinstance(n, ast.AugAssign) else n.targets if isinstance(n, ast.Assign) else []) if isinstance(t, ast.Name)}
                    env = dict(env)
                    for a in assigned:
                        env[a] = TOP
            return env

        block(stmts, dict(env))
        return ret[0]

    def proved(self, test, env, depth):
        if isinstance(test, ast.Compare) and len(test.ops) == 1:
            a, b = self.eval(test.left, env, depth), self.eval(test.comparators[0], env, depth)
            op = test.ops[0]
            if isinstance(op, ast.GtE):
                return a[0] >= b[1]
            if isinstance(op, ast.Gt):
                return a[0] > b[1]
            if isinstance(op, ast.LtE):
                return a[1] <= b[0]
            if isinstance(op, ast.Lt):
                return a[1] < b[0]
        return False

"""Extraction of the element tree the XML writer emits, by abstract interpretation of the builder
functions in commonroad/common/writer/file_writer_xml.py (nothing is executed).

Each builder is interpreted statement by statement: variables are bound to abstract nodes,
`etree.Element(tag)`, `.append/.extend/.set`, `.text =` are recorded in program order together
with the dominating guards and the enclosing loops; calls to other builders (class methods, module
functions, `Point(..).create_node()`) become call references that are expanded from the callee's
own summary.  For every text / attribute value the attribute path of the domain object it is
computed from is recorded ("lanelet.predecessor[*]"), and the formatting function applied.
"""
import ast

from .core import AnalysisError, attr_chain, call_name, dominating_guards, norm
from .dataflow import ReachingDefs

WX = "commonroad/common/writer/file_writer_xml.py"


class Node:
    _n = 0

    def __init__(self, tag, origin, fn_name, dyn=None):
        Node._n += 1
        self.id = Node._n
        self.tag = tag  # str or None when dynamic
        self.dyn = dyn  # expression node for dynamic tags
        self.origin = origin  # ast node
        self.fn = fn_name
        self.children = []  # Child
        self.attrs = []  # (name, value expr, guards, origin)
        self.texts = []  # (value expr, guards, origin)
        self.base = None  # CallRef whose returned root this node stands for (children of that root come first)

    def __repr__(self):
        return "<%s>" % (self.tag or ("?" + norm(self.dyn)[:30]))


class Alt(list):
    """alternative bindings of one variable (assigned in different branches)"""


def alt(a, b):
    if a is b:
        return a
    out = Alt()
    for x in (a, b):
        for y in (x if isinstance(x, Alt) else [x]):
            if y is not None and not any(y is z for z in out):
                out.append(y)
    return out if len(out) != 1 else out[0]


class Child:
    def __init__(self, what, guards, loops, origin, extend=False):
        self.what = what  # Node | CallRef | ParamRef
        self.guards = guards
        self.loops = loops  # list of (target text, iter text)
        self.origin = origin
        self.extend = extend
        self.unroll = Child.current_unroll  # which iteration of an unrolled literal loop emitted it (0 = none)
        self.aliases = dict(Child.current_aliases)  # loop variables of unrolled literal loops -> element expression

    current_unroll = 0
    current_aliases = {}


class CallRef:
    def __init__(self, callee, call, args, kwargs, recv=None):
        self.callee = callee  # (class name or None, function name)
        self.call = call
        self.args = args
        self.kwargs = kwargs
        self.recv = recv  # receiver expression for instance methods (Point(..).create_node())

    def __repr__(self):
        return "<call %s.%s>" % self.callee


class Summary:
    def __init__(self, cls, fn):
        self.cls, self.fn = cls, fn
        self.params = [a.arg for a in fn.args.args]
        self.nodes = {}  # var -> Node / CallRef (last binding per variable name is tracked through env copies)
        self.returns = []  # list of (value: Node|CallRef|list|ParamNode, guards)
        self.param_nodes = {}  # param name -> Node (pseudo) for node-typed parameters
        self.all_nodes = []


class WriterModel:
    def __init__(self, repo):
        self.repo = repo
        self.mod = repo.mod(WX)
        self.summaries = {}
        self.funcs = {}
        self.unresolved = []  # (function name, statement text): appended values the model could not interpret
        for c in self.mod.classes.values():
            for n, f in c.methods.items():
                self.funcs[(c.name, n)] = (c, f)
        for n, f in self.mod.functions.items():
            self.funcs[(None, n)] = (None, f)

    # ---------------------------------------------------------------- resolution of callees
    def resolve_callee(self, cls, call, env):
        f = call.func
        if isinstance(f, ast.Name):
            if (None, f.id) in self.funcs:
                return (None, f.id), None
            return None, None
        if isinstance(f, ast.Attribute):
            v = f.value
            if isinstance(v, ast.Name):
                b = env.get(v.id)
                if isinstance(b, tuple) and b[0] == "alias" and isinstance(b[1], ast.Name):
                    v = b[1]  # loop variable of an unrolled loop over a constant tuple
            if isinstance(v, ast.Name):
                if v.id in ("cls", "self") and cls is not None:
                    owner, m = self.repo.find_method(cls, f.attr)
                    if m is not None:
                        return (owner.name, f.attr), (v if v.id == "self" else None)
                if v.id in self.mod.classes and (v.id, f.attr) in self.funcs:
                    return (v.id, f.attr), None
                # instance held in a local: class from its constructor call
                b = env.get(v.id)
                if isinstance(b, tuple) and b[0] == "instance" and (b[1], f.attr) in self.funcs:
                    return (b[1], f.attr), v
                # loop variable named after its class (for point in self.points: point.create_node())
                for cn in self.mod.classes:
                    if cn.lower() == v.id.lower() and (cn, f.attr) in self.funcs:
                        return (cn, f.attr), v
                # loop variable over an attribute of the object whose element class the constructor declares
                # (`def __init__(self, points: List[Point]): self.points = points` ... `for p in self.points`)
                cn = self._loop_element_class(cls, v.id)
                if cn is not None and (cn, f.attr) in self.funcs:
                    return (cn, f.attr), v
            if isinstance(v, ast.Call):
                # Point(..).create_node()  /  Pointlist.create_from_numpy_array(x).add_points_to_node(n)
                cn = call_name(v)
                if cn in self.mod.classes and (cn, f.attr) in self.funcs:
                    return (cn, f.attr), v
                if cn and "." in cn:
                    c0, m0 = cn.split(".")[0], cn.split(".")[-1]
                    if c0 in self.mod.classes and (c0, m0) in self.funcs:
                        # classmethod constructor returning an instance of c0
                        if (c0, f.attr) in self.funcs:
                            return (c0, f.attr), v
        return None, None

    def _loop_element_class(self, cls, var):
        """class of the elements a loop variable of some method of `cls` runs over, when the loop is over `self.A` and
        the constructor stores a parameter annotated List[C] / Iterable[C] / Tuple[C, ...] under A (C a class of this
        module); None when there is no such single answer"""
        if cls is None:
            return None
        found = set()
        for m in cls.methods.values():
            for n in ast.walk(m):
                it = None
                if isinstance(n, ast.For) and isinstance(n.target, ast.Name) and n.target.id == var:
                    it = n.iter
                elif isinstance(n, ast.comprehension) and isinstance(n.target, ast.Name) and n.target.id == var:
                    it = n.iter
                if it is None or not (isinstance(it, ast.Attribute) and isinstance(it.value, ast.Name) and it.value.id == "self"):
                    continue
                init = cls.methods.get("__init__")
                if init is None:
                    continue
                anns = {a.arg: a.annotation for a in init.args.args if a.annotation is not None}
                for st in ast.walk(init):
                    if isinstance(st, ast.Assign) and len(st.targets) == 1 and isinstance(st.targets[0], ast.Attribute) and isinstance(st.targets[0].value, ast.Name) and st.targets[0].value.id == "self" and st.targets[0].attr == it.attr and isinstance(st.value, ast.Name) and st.value.id in anns:
                        ann = anns[st.value.id]
                        if isinstance(ann, ast.Subscript) and norm(ann.value).split(".")[-1] in ("List", "Iterable", "Sequence", "Tuple", "list", "tuple"):
                            inner = ann.slice.elts[0] if isinstance(ann.slice, ast.Tuple) else ann.slice
                            name = norm(inner).strip("'\"")
                            if name in self.mod.classes:
                                found.add(name)
        return next(iter(found)) if len(found) == 1 else None

    # ---------------------------------------------------------------- interpretation
    def interpret_into(self, key, env):
        """Interpret a method with a pre-bound environment (used for the top-level writer whose root node
        lives in self._root_node)."""
        cls, fn = self.funcs[key[:2]]
        s = Summary(cls, fn)
        self._block(s, fn.body, env, [], [])
        return s

    def summary(self, key):
        """key = (class name, function name[, ((param, constant), ..)]): the optional third component specialises
        the builder for constant (string) arguments, so that `etree.Element(tag)` with a tag parameter is resolved"""
        if key in self.summaries:
            return self.summaries[key]
        cls, fn = self.funcs[key[:2]]
        s = Summary(cls, fn)
        self.summaries[key] = s
        env = {}
        for pn, val in (key[2] if len(key) > 2 else ()):
            env[pn] = ("alias", ast.Constant(value=val))
        # node-typed parameters: annotated etree.Element or named *node*
        for a in fn.args.args:
            ann = norm(a.annotation) if a.annotation is not None else ""
            if "Element" in ann or a.arg.endswith("_node") or a.arg in ("node", "xml_node"):
                pn = Node(None, a, fn.name)
                pn.tag = "<param:%s>" % a.arg
                s.param_nodes[a.arg] = pn
                env[a.arg] = pn
        self._block(s, fn.body, env, [], [])
        return s

    def _value(self, s, expr, env):
        """Abstract value of an expression: Node / CallRef / list of those / None."""
        if isinstance(expr, ast.Name):
            v = env.get(expr.id)
            if isinstance(v, (Node, CallRef, list)):
                return v
            if isinstance(v, tuple) and v[0] == "alias":
                return self._value(s, v[1], env)
            return None
        if isinstance(expr, ast.Attribute):
            v = env.get(norm(expr))
            if isinstance(v, (Node, CallRef, list)):
                return v
            return None
        if isinstance(expr, ast.IfExp):
            return alt(self._value(s, expr.body, env), self._value(s, expr.orelse, env))
        if isinstance(expr, ast.Call):
            cn = call_name(expr)
            if cn in ("etree.Element", "etree.SubElement", "ElementTree.Element", "et.Element"):
                tag_expr = expr.args[-1] if cn != "etree.SubElement" else expr.args[1]
                if isinstance(tag_expr, ast.Name) and isinstance(env.get(tag_expr.id), tuple) and env[tag_expr.id][0] == "alias" and isinstance(env[tag_expr.id][1], ast.Constant):
                    tag_expr = env[tag_expr.id][1]
                tag = tag_expr.value if isinstance(tag_expr, ast.Constant) and isinstance(tag_expr.value, str) else None
                n = Node(tag, expr, s.fn.name, None if tag is not None else tag_expr)
                s.all_nodes.append(n)
                return n
            callee, recv = self.resolve_callee(s.cls, expr, env)
            if callee is not None:
                # constant (string) arguments specialise the callee
                cfn = self.funcs[callee][1]
                ps = [a.arg for a in cfn.args.args]
                if ps and ps[0] in ("cls", "self"):
                    ps = ps[1:]
                consts = []
                for pn, a in list(zip(ps, expr.args)) + [(k.arg, k.value) for k in expr.keywords if k.arg]:
                    if isinstance(a, ast.Name) and isinstance(env.get(a.id), tuple) and env[a.id][0] == "alias" and isinstance(env[a.id][1], ast.Constant):
                        a = env[a.id][1]
                    if isinstance(a, ast.Constant) and isinstance(a.value, str):
                        consts.append((pn, a.value))
                if consts:
                    callee = callee + (tuple(sorted(consts)),)
                return CallRef(callee, expr, list(expr.args), {k.arg: k.value for k in expr.keywords if k.arg}, recv)
            return None
        if isinstance(expr, ast.List):
            vals = [self._value(s, e, env) for e in expr.elts]
            return [v for v in vals if v is not None]
        return None

    def _literal_table(self, cls, expr):
        """cls.NAME / self.NAME / NAME denoting a class-level or module-level literal tuple (of tuples) of constants"""
        name = None
        if isinstance(expr, ast.Attribute) and isinstance(expr.value, ast.Name) and expr.value.id in ("cls", "self") and cls is not None:
            for k in self.repo.mro(cls):
                if expr.attr in k.class_assigns:
                    val = k.class_assigns[expr.attr]
                    name = val
                    break
        elif isinstance(expr, ast.Attribute) and isinstance(expr.value, ast.Name) and expr.value.id in self.mod.classes:
            name = self.mod.classes[expr.value.id].class_assigns.get(expr.attr)
        elif isinstance(expr, ast.Name):
            name = self.mod.assigns.get(expr.id)
        if isinstance(name, (ast.Tuple, ast.List)) and name.elts and all(isinstance(e, ast.Constant) or (isinstance(e, (ast.Tuple, ast.List)) and all(isinstance(x, ast.Constant) for x in e.elts)) for e in name.elts):
            return name
        return None

    @staticmethod
    def _split_ifexp(val):
        """`a if c else b` as a value = value a under c, value b under not c"""
        if isinstance(val, ast.IfExp):
            out = []
            for v, e in WriterModel._split_ifexp(val.body):
                out.append((v, [(norm(val.test), True)] + e))
            for v, e in WriterModel._split_ifexp(val.orelse):
                out.append((v, [(norm(val.test), False)] + e))
            return out
        return [(val, [])]

    def _guards(self, node):
        return [(norm(t), pol) for t, pol in dominating_guards(self.mod, node)]

    def _block(self, s, stmts, env, guards, loops):
        for st in stmts:
            self._stmt(s, st, env, guards, loops)

    def _stmt(self, s, st, env, guards, loops):
        if isinstance(st, (ast.Assign, ast.AnnAssign)):
            tg = st.targets[0] if isinstance(st, ast.Assign) else st.target
            val = st.value
            if val is None:
                return
            if isinstance(tg, ast.Name):
                v = self._value(s, val, env)
                if v is not None:
                    # a call that receives one of our nodes and returns it aliases that node
                    if isinstance(v, CallRef):
                        self._apply_call_on_nodes(s, v, env, st)
                        alias = self._returned_alias(v, env)
                        if alias is None and self._returns_single_fresh(v):
                            alias = Node(None, val, s.fn.name)
                            alias.base = v
                            s.all_nodes.append(alias)
                        env[tg.id] = alias if alias is not None else v
                    else:
                        env[tg.id] = v
                elif isinstance(val, ast.Call) and call_name(val) in self.mod.classes:
                    env[tg.id] = ("instance", call_name(val))
                elif isinstance(val, ast.Call) and call_name(val) and call_name(val).split(".")[0] in self.mod.classes:
                    env[tg.id] = ("instance", call_name(val).split(".")[0])
                elif isinstance(val, ast.List) and not val.elts:
                    env[tg.id] = []
                else:
                    env.pop(tg.id, None)
            elif isinstance(tg, ast.Attribute) and tg.attr == "text" and isinstance(tg.value, ast.Name):
                n = env.get(tg.value.id)
                if isinstance(n, Node):
                    for val_, extra in self._split_ifexp(val):
                        n.texts.append((val_, self._guards(st) + extra, st))
            return
        if isinstance(st, ast.Expr) and isinstance(st.value, ast.Call):
            c = st.value
            f = c.func
            rkey = None
            if isinstance(f, ast.Attribute):
                rkey = f.value.id if isinstance(f.value, ast.Name) else norm(f.value)
            if rkey is not None and isinstance(env.get(rkey), (Node, list)):
                target = env[rkey]
                if f.attr in ("append", "extend", "insert") and c.args:
                    arg = c.args[-1]
                    comp_loops = []
                    if isinstance(arg, (ast.GeneratorExp, ast.ListComp)) and f.attr == "extend":
                        comp_loops = [(norm(g.target), norm(g.iter)) for g in arg.generators]
                        arg = arg.elt
                    v = self._value(s, arg, env)
                    if v is None:
                        # fail closed: something is appended to a node we model, and we cannot tell what
                        self.unresolved.append((s.fn.name, norm(st)[:120], st.lineno))
                        return
                    if isinstance(v, CallRef):
                        self._apply_call_on_nodes(s, v, env, st)
                        alias = self._returned_alias(v, env)
                        if alias is not None:
                            v = alias
                    ch = Child(v, self._guards(st), list(loops) + comp_loops, st, extend=(f.attr == "extend" and not comp_loops))
                    if isinstance(target, Node):
                        target.children.append(ch)
                    else:
                        target.append(ch)
                    return
                if f.attr == "set" and len(c.args) == 2 and isinstance(target, Node) and isinstance(c.args[0], ast.Constant):
                    for val_, extra in self._split_ifexp(c.args[1]):
                        target.attrs.append((c.args[0].value, val_, self._guards(st) + extra, st))
                    return
            v = self._value(s, c, env)
            if isinstance(v, CallRef):
                self._apply_call_on_nodes(s, v, env, st)
            return
        if isinstance(st, ast.If):
            ea, eb = dict(env), dict(env)
            self._block(s, st.body, ea, guards, loops)
            self._block(s, st.orelse, eb, guards, loops)
            for k in set(ea) | set(eb):
                va, vb = ea.get(k), eb.get(k)
                if va is vb:
                    env[k] = va
                elif isinstance(va, (Node, CallRef, list)) or isinstance(vb, (Node, CallRef, list)):
                    if isinstance(va, list) and not isinstance(va, Alt) and isinstance(vb, list) and not isinstance(vb, Alt):
                        env[k] = va if len(va) >= len(vb) else vb
                        if va is not vb:
                            env[k] = list(va) + [x for x in vb if not any(x is y for y in va)]
                    else:
                        env[k] = alt(va, vb)
                else:
                    env[k] = va if va is not None else vb
            return
        if isinstance(st, ast.For) and not isinstance(st.iter, (ast.Tuple, ast.List)):
            lit = self._literal_table(s.cls, st.iter)
            if lit is not None:
                st = ast.copy_location(ast.For(target=st.target, iter=lit, body=st.body, orelse=st.orelse), st)
        if isinstance(st, ast.For) and isinstance(st.iter, (ast.Tuple, ast.List)) and st.iter.elts and not st.orelse:
            # loop over a literal tuple (of tuples): unrolled, the targets are aliases of the element expressions
            tgts = st.target.elts if isinstance(st.target, (ast.Tuple, ast.List)) else [st.target]
            ok = all(isinstance(t, ast.Name) for t in tgts)
            for e in st.iter.elts:
                parts = e.elts if isinstance(e, (ast.Tuple, ast.List)) and len(tgts) > 1 else [e]
                ok = ok and len(parts) == len(tgts)
            if ok:
                saved, saved_al = Child.current_unroll, Child.current_aliases
                for k, e in enumerate(st.iter.elts):
                    parts = e.elts if isinstance(e, (ast.Tuple, ast.List)) and len(tgts) > 1 else [e]
                    for t, x in zip(tgts, parts):
                        env[t.id] = ("alias", x)
                    Child.current_unroll = saved * 100 + k + 1
                    Child.current_aliases = dict(saved_al, **{t.id: x for t, x in zip(tgts, parts)})
                    self._block(s, st.body, env, guards, loops)
                Child.current_unroll, Child.current_aliases = saved, saved_al
                return
        if isinstance(st, (ast.For, ast.While)):
            lp = loops + [(norm(st.target) if isinstance(st, ast.For) else "", norm(st.iter) if isinstance(st, ast.For) else "")]
            self._block(s, st.body, env, guards, lp)
            return
        if isinstance(st, ast.Try):
            self._block(s, st.body, env, guards, loops)
            for h in st.handlers:
                self._block(s, h.body, env, guards, loops)
            return
        if isinstance(st, ast.With):
            self._block(s, st.body, env, guards, loops)
            return
        if isinstance(st, ast.Return) and st.value is not None:
            v = self._value(s, st.value, env)
            if isinstance(v, CallRef):
                self._apply_call_on_nodes(s, v, env, st)
                alias = self._returned_alias(v, env)
                if alias is not None:
                    v = alias
            s.returns.append((v, self._guards(st), st))

    def _node_args(self, cr, env):
        """(callee param name, our Node) for node-valued arguments of a call."""
        csum = self.summary(cr.callee)
        params = list(csum.params)
        if params and params[0] in ("cls", "self"):
            params = params[1:]
        out = []
        for i, a in enumerate(cr.args):
            if i < len(params) and isinstance(a, ast.Name) and isinstance(env.get(a.id), Node):
                out.append((params[i], env[a.id]))
        for k, a in cr.kwargs.items():
            if isinstance(a, ast.Name) and isinstance(env.get(a.id), Node):
                out.append((k, env[a.id]))
        return out

    def _apply_call_on_nodes(self, s, cr, env, origin):
        """Children the callee appends to a node passed as argument are attached to our node."""
        csum = self.summary(cr.callee)
        for pname, ours in self._node_args(cr, env):
            pn = csum.param_nodes.get(pname)
            if pn is None:
                continue
            key = (id(cr.call), pname)
            if key in getattr(ours, "_applied", set()):
                continue
            ours.__dict__.setdefault("_applied", set()).add(key)
            loops = []
            for ch in pn.children:
                ours.children.append(Child(("via", cr, ch), self._guards(origin), loops, origin, ch.extend))
            for a in pn.attrs:
                ours.attrs.append(a)

    def _returns_single_fresh(self, cr):
        csum = self.summary(cr.callee)
        vals = [v for v, _g, _o in csum.returns]
        return len(vals) == 1 and isinstance(vals[0], Node) and not (vals[0].tag or "").startswith("<param:")

    def _returned_alias(self, cr, env):
        """If the callee returns the node it was given, the call's value is our node."""
        csum = self.summary(cr.callee)
        for v, _g, _o in csum.returns:
            if isinstance(v, Node) and v.tag and v.tag.startswith("<param:"):
                pname = v.tag[len("<param:"):-1]
                for pn, ours in self._node_args(cr, env):
                    if pn == pname:
                        return ours
        return None

    # ---------------------------------------------------------------- expansion
    def roots_of(self, key, depth=0):
        """Nodes a builder returns (through nested builder calls)."""
        if depth > 12:
            return []
        s = self.summary(key)
        out = []
        for v, g, o in s.returns:
            out += self._expand_value(v, depth)
        return out

    def _expand_value(self, v, depth):
        if isinstance(v, Alt):
            out = []
            for e in v:
                out += self._expand_value(e, depth)
            return out
        if isinstance(v, Node):
            return [v]
        if isinstance(v, CallRef):
            return self.roots_of(v.callee, depth + 1)
        if isinstance(v, list):
            out = []
            for e in v:
                if isinstance(e, Child):
                    out += self._expand_child(e, depth)
                else:
                    out += self._expand_value(e, depth)
            return out
        return []

    def _expand_child(self, ch, depth=0):
        w = ch.what
        if isinstance(w, tuple) and w[0] == "via":
            return self._expand_child(w[2], depth + 1)
        return self._expand_value(w, depth)

    def children(self, node):
        """[(child Node, Child record)] in emission order, builder calls expanded."""
        out = []
        if node.base is not None:
            for r in self.roots_of(node.base.callee):
                out += self.children(r)
        for ch in node.children:
            for n in self._expand_child(ch):
                out.append((n, ch))
        return out

    @staticmethod
    def all_guards(rec):
        """guards of a child record including those inside the callees it was appended through"""
        out = list(rec.guards)
        w = rec.what
        while isinstance(w, tuple) and w[0] == "via":
            out += list(w[2].guards)
            w = w[2].what
        return out

    def base_root(self, node):
        """The callee's root node a proxy node stands for (tag, attributes, text come from there)."""
        seen = 0
        while node.base is not None and seen < 10:
            roots = self.roots_of(node.base.callee)
            if len(roots) != 1:
                break
            node = roots[0]
            seen += 1
        return node

    def attrs_of(self, node):
        out = list(node.attrs)
        n, k = node, 0
        while n.base is not None and k < 10:
            roots = self.roots_of(n.base.callee)
            if len(roots) != 1:
                break
            n = roots[0]
            out = list(n.attrs) + out
            k += 1
        return out

"""./check <ID> [--tier quick|thorough] [--replay path] [--repo root]"""
import importlib
import json
import os
import sys
import time
import traceback

from . import core


def main(argv):
    import argparse

    ap = argparse.ArgumentParser()
    ap.add_argument("pid")
    ap.add_argument("--tier", default=os.environ.get("VERIF_TIER") or "quick", choices=["quick", "thorough"])
    ap.add_argument("--replay", default=None)
    ap.add_argument("--repo", default=None)
    ap.add_argument("--no-evidence", action="store_true", help="developer runs on scratch trees: do not rewrite evidence/ and replay files")
    a = ap.parse_args(argv)
    pid = a.pid.upper()
    if a.no_evidence:
        os.environ["VERIF_NO_EVIDENCE"] = "1"
    t0 = time.time()
    if a.replay:
        with open(a.replay) as fh:
            rp = json.load(fh)
        print("replay of %s: re-running the rule on the current tree; the recorded finding was:" % a.replay)
        print(json.dumps(rp, indent=1))
    try:
        try:
            mod = importlib.import_module("sa.props.%s" % pid.lower())
        except ModuleNotFoundError:
            raise core.AnalysisError("no check for property %s" % pid)
        repo = core.Repo(a.repo)
        res = core.Result(pid)
        extra = mod.run(repo, res, a.tier) or {}
        res.verify_instance_counts()
        if a.tier == "thorough":
            from . import selftest

            summary, failures = selftest.run(pid, repo, res)
            extra["selftest"] = summary
            print("  selftest: %s" % {k: v for k, v in summary.items() if k != "details"})
            for f in failures:
                print("  SELFTEST-WEAKNESS (checker, not the property): %s" % f)
            if hasattr(mod, "thorough"):
                extra.update(mod.thorough(repo, res) or {})
        code = core.report(pid, a.tier, res, repo, t0, extra)
        if a.replay:
            keys = {f.key for f in res.findings}
            print("replayed finding %s on the current tree" % ("REPRODUCED" if rp.get("key") in keys else "not reproduced"))
        return code
    except core.AnalysisError as e:
        print("ANALYSIS-ERROR property=%s %s" % (pid, e))
        return 2
    except Exception:
        print("ANALYSIS-ERROR property=%s internal error in the analyser:" % pid)
        traceback.print_exc(file=sys.stdout)
        return 2


if __name__ == "__main__":
    sys.exit(main(sys.argv[1:]))

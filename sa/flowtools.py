"""Shape-independent views of a function, so that rules speak about *what is returned under which condition*
and not about how the code is laid out (early returns vs. a result variable, hoisted locals, guard styles)."""
import ast

from .core import canon, dominating_guards, norm, walk_no_nested


class Case:
    """one way a function produces its result: value expression + the conditions known to hold"""

    def __init__(self, value, guards, stmt, via_var=None):
        self.value, self.guards, self.stmt, self.via_var = value, guards, stmt, via_var

    def text(self, rd, params=()):
        return "None" if self.value is None else canon(self.value, rd, self.stmt, params)


def canon_guards(mod, node, fn, rd, params=(), skip_asserts=False):
    """[(canonical text, polarity, parsed canonical test)] of the conditions dominating `node`"""
    out = []
    for t, pol in dominating_guards(mod, node, stop=fn):
        if skip_asserts:
            # an assert states a precondition (violations raise); it is not part of the decision
            top = t
            while isinstance(mod.parent.get(top), (ast.BoolOp, ast.UnaryOp)):
                top = mod.parent.get(top)
            if isinstance(mod.parent.get(top), ast.Assert):
                continue
        st = rd.stmt_of(t) if rd is not None else None
        txt = canon(t, rd, st if st is not None else (node if isinstance(node, ast.stmt) else None), params)
        try:
            parsed = ast.parse(txt, mode="eval").body
        except SyntaxError:
            parsed = t
        out.append((txt, pol, parsed))
    return out


def result_cases(mod, fn, rd, params=(), skip_asserts=False):
    """Every (value, guards) pair the function may return.  `return v` with v a local that has several reaching
    definitions is expanded into one case per definition (guards = those of the defining statement; a definition made
    unconditionally at the top acts as the default)."""
    cases = []
    rets = [r for r in walk_no_nested(fn) if isinstance(r, ast.Return)]
    for r in rets:
        v = r.value
        rg = canon_guards(mod, r, fn, rd, params, skip_asserts)
        if isinstance(v, ast.Name) and v.id not in params:
            defs = [d for d in rd.defs(v.id, r)]
            if len(defs) > 1 and all(d.kind == "assign" and d.node is not None for d in defs):
                for d in defs:
                    cases.append(Case(d.node, canon_guards(mod, d.stmt, fn, rd, params, skip_asserts) + rg, d.stmt, via_var=v.id))
                continue
        # a conditional expression is two cases, each under its side of the test
        todo = [(v, rg)]
        while todo:
            v_, g_ = todo.pop(0)
            if isinstance(v_, ast.IfExp):
                txt = canon(v_.test, rd, r, params)
                try:
                    parsed = ast.parse(txt, mode="eval").body
                except SyntaxError:
                    parsed = v_.test
                todo = [(v_.body, g_ + [(txt, True, parsed)]), (v_.orelse, g_ + [(txt, False, parsed)])] + todo
            else:
                cases.append(Case(v_, g_, r))
    # falling off the end returns None
    if fn.body and not isinstance(fn.body[-1], (ast.Return, ast.Raise)):
        cases.append(Case(None, [], fn.body[-1]))
    return cases


def is_none(e):
    return e is None or (isinstance(e, ast.Constant) and e.value is None)


def guards_say(guards, text, pol=True):
    return any(t == text and p == pol for t, p, _n in guards)


def guards_not_none(guards, text):
    for t, pol, n in guards:
        if pol and t in ("%s is not None" % text, text):
            return True
        if not pol and t == "%s is None" % text:
            return True
        if pol and isinstance(n, ast.Call) and norm(n.func) == "isinstance" and norm(n.args[0]) == text and "None" not in norm(n.args[1]):
            return True
    return False


class Collected:
    """one way a function adds an element to the list it returns:  for var in iter [...nested] if guards: add elem"""

    def __init__(self, elem, iters, guards, node, how):
        self.elem, self.iters, self.guards, self.node, self.how = elem, iters, guards, node, how


def collected(mod, fn, rd, params=(), helpers=None, result=None):
    """Normal form of list-building code.  Handles
        res = []; for v in IT: [if G:] res.append(E) | res.extend(E for w in IT2 if G2) ; return res
        return [E for v in IT if G]            (possibly through a local)
        res.extend(..generator..) / res += [..]
    Returns (list of Collected, name of the result variable or None).  iters: [(target text, iterable canonical text,
    iterable node)] from the outermost loop inwards; guards: canonical (text, polarity, node) conditions between the
    outermost loop and the element."""
    out = []
    rets = [r for r in walk_no_nested(fn) if isinstance(r, ast.Return) and r.value is not None]
    names = set()
    comps = []
    for r in rets:
        v = r.value
        if isinstance(v, ast.Name):
            names.add(v.id)
            for d in rd.defs(v.id, r):
                if d.kind == "assign" and isinstance(d.node, (ast.ListComp, ast.SetComp, ast.GeneratorExp)):
                    comps.append((d.node, d.stmt))
                elif d.kind == "assign" and isinstance(d.node, ast.Call) and norm(d.node.func) in ("list", "set", "sorted") and d.node.args and isinstance(d.node.args[0], (ast.ListComp, ast.GeneratorExp, ast.SetComp)):
                    comps.append((d.node.args[0], d.stmt))
        elif isinstance(v, (ast.ListComp, ast.SetComp, ast.GeneratorExp)):
            comps.append((v, r))
        elif isinstance(v, ast.Call) and norm(v.func) in ("list", "set", "sorted") and v.args and isinstance(v.args[0], (ast.ListComp, ast.GeneratorExp, ast.SetComp)):
            comps.append((v.args[0], r))
    if result is not None:
        names.add(result)
        for st in walk_no_nested(fn):
            if isinstance(st, ast.Assign) and len(st.targets) == 1 and isinstance(st.targets[0], ast.Name) and st.targets[0].id == result:
                v = st.value
                if isinstance(v, ast.Call) and norm(v.func) in ("list", "set", "sorted") and v.args:
                    v = v.args[0]
                if isinstance(v, (ast.ListComp, ast.SetComp, ast.GeneratorExp)) and not any(c is v for c, _a in comps):
                    comps.append((v, st))

    def cn(e, at):
        return canon(e, rd, at, params, helpers)

    def comp_entry(c, at, outer_iters, outer_guards, how):
        iters = list(outer_iters)
        guards = list(outer_guards)
        for g in c.generators:
            iters.append((norm(g.target), cn(g.iter, at), g.iter))
            for cond in g.ifs:
                t = cn(cond, at)
                try:
                    pn = ast.parse(t, mode="eval").body
                except SyntaxError:
                    pn = cond
                guards.append((t, True, pn))
        out.append(Collected(c.elt, iters, guards, c, how))

    for c, at in comps:
        comp_entry(c, at, [], [], "comprehension")

    def enclosing(node):
        """loops (outermost first) and guards between the function and node"""
        chain = []
        cur = node
        while cur is not None and cur is not fn:
            par = mod.parent.get(cur)
            if isinstance(par, ast.For) and cur in par.body:
                chain.append(par)
            cur = par
        chain.reverse()
        st = node if isinstance(node, ast.stmt) else rd.stmt_of(node)
        iters = [(norm(lp.target), cn(lp.iter, lp), lp.iter) for lp in chain]
        guards = canon_guards(mod, node, fn, rd, params)
        return iters, guards

    for n in walk_no_nested(fn):
        if isinstance(n, ast.Call) and isinstance(n.func, ast.Attribute) and isinstance(n.func.value, ast.Name) and n.func.value.id in names:
            if n.func.attr in ("append", "add") and len(n.args) == 1:
                iters, guards = enclosing(n)
                out.append(Collected(n.args[0], iters, guards, n, "append"))
            elif n.func.attr in ("extend", "update") and len(n.args) == 1:
                a = n.args[0]
                iters, guards = enclosing(n)
                if isinstance(a, (ast.ListComp, ast.GeneratorExp, ast.SetComp)):
                    comp_entry(a, rd.stmt_of(n), iters, guards, "extend")
                else:
                    out.append(Collected(ast.Starred(value=a, ctx=ast.Load()), iters, guards, n, "extend-iterable"))
    return out, (sorted(names)[0] if names else None)


def exists_form(mod, fn, rd, params=(), helpers=None):
    """Normal form of `is there an element with P`:
         for v in IT: if P: return True ; return False        |  return any(P for v in IT)
    -> (iterable canonical text, variable, predicate node, node) or None."""
    def cn(e, at):
        return canon(e, rd, at, params, helpers)

    for r in walk_no_nested(fn):
        if isinstance(r, ast.Return) and isinstance(r.value, ast.Call) and norm(r.value.func) == "any" and r.value.args and isinstance(r.value.args[0], (ast.GeneratorExp, ast.ListComp)):
            g = r.value.args[0]
            if len(g.generators) == 1 and not g.generators[0].ifs:
                return cn(g.generators[0].iter, r), norm(g.generators[0].target), g.elt, r
    loops = [n for n in fn.body if isinstance(n, ast.For)]
    if len(loops) == 1:
        lp = loops[0]
        tail = fn.body[fn.body.index(lp) + 1:]
        tail = [s for s in tail if not (isinstance(s, ast.Expr) and isinstance(s.value, ast.Constant))]
        if len(lp.body) == 1 and isinstance(lp.body[0], ast.If) and not lp.body[0].orelse and len(lp.body[0].body) == 1 and isinstance(lp.body[0].body[0], ast.Return) and isinstance(lp.body[0].body[0].value, ast.Constant) and lp.body[0].body[0].value.value is True and len(tail) == 1 and isinstance(tail[0], ast.Return) and isinstance(tail[0].value, ast.Constant) and tail[0].value.value is False:
            return cn(lp.iter, lp), norm(lp.target), lp.body[0].test, lp
    return None


def truth_dnf(mod, fn, rd, params=(), helpers=None):
    """Disjunctive normal form of a predicate function: it answers True iff one of the returned conjunctions holds.
    Each conjunction is a list of (canonical text, polarity).  `return A and B`, `if not A: return False ... return B`
    and nested single-return helpers give the same form.  A returned value that is neither a constant nor a
    conjunction is one conjunct."""
    out = []
    for c in result_cases(mod, fn, rd, params, skip_asserts=True):
        v = c.value
        if v is None or (isinstance(v, ast.Constant) and v.value in (False, None)):
            continue
        conj = [(t, p) for t, p, _n in c.guards]
        if not (isinstance(v, ast.Constant) and v.value is True):
            txt = canon(v, rd, c.stmt, params, helpers)
            try:
                vn = ast.parse(txt, mode="eval").body
            except SyntaxError:
                vn = v
            stack = [(vn, True)]
            while stack:
                e, pol = stack.pop()
                if isinstance(e, ast.BoolOp) and isinstance(e.op, ast.And) and pol:
                    stack.extend((x, True) for x in e.values)
                elif isinstance(e, ast.BoolOp) and isinstance(e.op, ast.Or) and not pol:
                    stack.extend((x, False) for x in e.values)
                elif isinstance(e, ast.UnaryOp) and isinstance(e.op, ast.Not):
                    stack.append((e.operand, not pol))
                else:
                    conj.append((" ".join(ast.unparse(e).split()), pol))
        # guards themselves may be conjunctions after canonicalisation with helper inlining
        flat = []
        for t, p in conj:
            try:
                e = ast.parse(t, mode="eval").body
            except SyntaxError:
                flat.append((t, p))
                continue
            stack = [(e, p)]
            while stack:
                e2, pol = stack.pop()
                if isinstance(e2, ast.BoolOp) and isinstance(e2.op, ast.And) and pol:
                    stack.extend((x, True) for x in e2.values)
                elif isinstance(e2, ast.BoolOp) and isinstance(e2.op, ast.Or) and not pol:
                    stack.extend((x, False) for x in e2.values)
                elif isinstance(e2, ast.UnaryOp) and isinstance(e2.op, ast.Not):
                    stack.append((e2.operand, not pol))
                else:
                    flat.append((" ".join(ast.unparse(e2).split()), pol))
        out.append(sorted(set(flat)))
    return out


def backward_slice(fn, rd, expr, helpers=None, prov=None, depth=0, seen=None):
    """All expression nodes the value of `expr` may be computed from inside fn: expr itself, the defining
    expressions of the locals it reads (through loops, unpacking, comprehensions), and the bodies' return
    expressions of local helpers it calls (with their arguments)."""
    seen = seen if seen is not None else set()
    out = []
    if expr is None or depth > 8 or id(expr) in seen:
        return out
    seen.add(id(expr))
    out.append(expr)
    for x in ast.walk(expr):
        if isinstance(x, ast.Name) and isinstance(x.ctx, ast.Load):
            if prov is not None and id(x) in prov.comp_bind:
                out += backward_slice(fn, rd, prov.comp_bind[id(x)], helpers, prov, depth + 1, seen)
            for d in rd.defs(x.id, x):
                if d.node is not None and d.kind in ("assign", "for", "unpack", "with", "aug"):
                    out += backward_slice(fn, rd, d.node, helpers, prov, depth + 1, seen)
            # what was put into a container held by this local
            for c in ast.walk(fn):
                if isinstance(c, ast.Call) and isinstance(c.func, ast.Attribute) and isinstance(c.func.value, ast.Name) and c.func.value.id == x.id and c.func.attr in ("append", "extend", "add", "update", "insert") and id(c) not in seen:
                    seen.add(id(c))
                    for a in c.args:
                        out += backward_slice(fn, rd, a, helpers, prov, depth + 1, seen)
        elif isinstance(x, ast.Call) and helpers is not None:
            f = x.func
            h = None
            if isinstance(f, ast.Attribute) and isinstance(f.value, ast.Name) and f.value.id in ("self", "cls"):
                h = helpers.get(("m", f.attr))
            elif isinstance(f, ast.Name):
                h = helpers.get(("f", f.id))
            if h is not None and id(h) not in seen:
                seen.add(id(h))
                for r in ast.walk(h):
                    if isinstance(r, ast.Return) and r.value is not None:
                        out.append(r.value)
    return out


def mentions(text, name):
    """does canonical text refer to `name` as an attribute (x.name), a string key (['name']) or getattr(x, 'name')"""
    import re

    return bool(re.search(r"(\.%s\b(?!_))|(['\"]%s['\"])" % (re.escape(name), re.escape(name)), text))


def memo_form(fn):
    """Memoising getter?  Recognised layouts (S = a slot of self; A an optional leading alias `a = self.S`, which may
    stand for the slot in the test and in the early return; the value may be stored as `self.S = e`,
    `v = self.S = e` or `v = e; self.S = v`, and the final return may name the slot or that local):
         if <S absent>: <compute, storing self.S> ; return self.S
         if <S present>: return self.S ; <compute, storing self.S> ; return self.S
         try: return self.S  except AttributeError: pass|<compute> ; <compute, storing self.S> ; return self.S
       absent: `not hasattr(self, 'S')`, `self.S is None`; present: the negations.
       -> {"slot": S, "compute": [statements], "store_stmts": [...]} or None"""
    body = [s for s in fn.body if not (isinstance(s, ast.Expr) and isinstance(s.value, ast.Constant))]
    if not body:
        return None
    alias = slot0 = None
    f0 = body[0]
    if isinstance(f0, (ast.Assign, ast.AnnAssign)) and getattr(f0, "value", None) is not None:
        tg = f0.targets if isinstance(f0, ast.Assign) else [f0.target]
        if len(tg) == 1 and isinstance(tg[0], ast.Name) and isinstance(f0.value, ast.Attribute) and norm(f0.value.value) == "self":
            alias, slot0 = tg[0].id, f0.value.attr
            body = body[1:]
            if not body:
                return None

    def slot_of(e):
        if isinstance(e, ast.Attribute) and norm(e.value) == "self":
            return e.attr
        if alias is not None and isinstance(e, ast.Name) and e.id == alias:
            return slot0
        return None

    def slot_test(t):
        """(slot, 'absent'|'present') or None"""
        pol = True
        while isinstance(t, ast.UnaryOp) and isinstance(t.op, ast.Not):
            t, pol = t.operand, not pol
        if isinstance(t, ast.Call) and norm(t.func) == "hasattr" and len(t.args) == 2 and norm(t.args[0]) == "self" and isinstance(t.args[1], ast.Constant):
            return str(t.args[1].value), ("present" if pol else "absent")
        if isinstance(t, ast.Compare) and len(t.ops) == 1 and isinstance(t.comparators[0], ast.Constant) and t.comparators[0].value is None and slot_of(t.left) is not None:
            if isinstance(t.ops[0], ast.Is):
                return slot_of(t.left), ("absent" if pol else "present")
            if isinstance(t.ops[0], ast.IsNot):
                return slot_of(t.left), ("present" if pol else "absent")
        return None

    def same_slot(a, b):
        return a is not None and b is not None and a.lstrip("_") == b.lstrip("_")

    def stores(stmts, slot):
        out = []
        for st in stmts:
            for n in ast.walk(st):
                if isinstance(n, (ast.Assign, ast.AnnAssign)):
                    for t in (n.targets if isinstance(n, ast.Assign) else [n.target]):
                        if isinstance(t, ast.Attribute) and norm(t.value) == "self" and same_slot(t.attr, slot):
                            out.append(n)
        return out

    def stored_locals(stmts, slot):
        """locals that hold the value stored into the slot"""
        out = set()
        for n in stores(stmts, slot):
            if isinstance(n, ast.Assign):
                out |= {t.id for t in n.targets if isinstance(t, ast.Name)}
            v = getattr(n, "value", None)
            if isinstance(v, ast.Name):
                out.add(v.id)
        return out

    def returns_slot(st, slot, early=False, locals_=()):
        if not isinstance(st, ast.Return) or st.value is None:
            return False
        v = st.value
        if isinstance(v, ast.Attribute) and norm(v.value) == "self" and same_slot(v.attr, slot):
            return True
        if isinstance(v, ast.Name):
            if early:
                return alias is not None and v.id == alias and same_slot(slot0, slot)
            return v.id in locals_
        return False

    first = body[0]
    if isinstance(first, ast.Try) and len(first.body) == 1 and isinstance(first.body[0], ast.Return) and slot_of(first.body[0].value) is not None and isinstance(first.body[0].value, ast.Attribute) and len(first.handlers) == 1 and not first.orelse and not first.finalbody:
        h = first.handlers[0]
        if h.type is not None and norm(h.type) in ("AttributeError", "(AttributeError,)"):
            slot = first.body[0].value.attr
            rest = [x for x in h.body if not isinstance(x, ast.Pass)] + body[1:]
            if rest and stores(rest, slot) and returns_slot(rest[-1], slot, locals_=stored_locals(rest, slot)):
                return {"slot": slot, "compute": list(rest[:-1]), "store_stmts": stores(rest, slot)}
    if isinstance(first, ast.If) and not first.orelse:
        st = slot_test(first.test)
        if st is not None:
            slot, kind = st
            if kind == "absent" and len(body) == 2 and stores(first.body, slot) and returns_slot(body[1], slot, locals_=stored_locals(first.body, slot) | ({alias} if alias is not None and alias in stored_locals(first.body, slot) else set())):
                return {"slot": slot, "compute": list(first.body), "store_stmts": stores(first.body, slot)}
            if kind == "present" and len(first.body) == 1 and returns_slot(first.body[0], slot, early=True) and len(body) >= 3 and stores(body[1:], slot):
                if returns_slot(body[-1], slot, locals_=stored_locals(body[1:], slot)):
                    return {"slot": slot, "compute": list(body[1:-1]), "store_stmts": stores(body[1:], slot)}
    return None


def bool_atoms(e, atoms):
    """propositional skeleton of a test: nested tuples over atom indices; atoms are canonical texts of the
    non-boolean parts (`a not in b` is Not(`a in b`), `a is not b` is Not(`a is b`), `a != b` is Not(`a == b`))"""
    if isinstance(e, ast.BoolOp):
        return ("and" if isinstance(e.op, ast.And) else "or",) + tuple(bool_atoms(v, atoms) for v in e.values)
    if isinstance(e, ast.UnaryOp) and isinstance(e.op, ast.Not):
        return ("not", bool_atoms(e.operand, atoms))
    if isinstance(e, ast.Compare) and len(e.ops) == 1 and isinstance(e.ops[0], (ast.NotIn, ast.IsNot, ast.NotEq)):
        pos = {ast.NotIn: ast.In, ast.IsNot: ast.Is, ast.NotEq: ast.Eq}[type(e.ops[0])]()
        return ("not", bool_atoms(ast.Compare(left=e.left, ops=[pos], comparators=e.comparators), atoms))
    if isinstance(e, ast.Constant) and e.value in (True, False):
        return ("const", bool(e.value))
    t = " ".join(ast.unparse(e).split())
    if t not in atoms:
        atoms.append(t)
    return ("atom", atoms.index(t))


def bool_eval(sk, val):
    k = sk[0]
    if k == "atom":
        return val[sk[1]]
    if k == "const":
        return sk[1]
    if k == "not":
        return not bool_eval(sk[1], val)
    if k == "and":
        return all(bool_eval(x, val) for x in sk[1:])
    return any(bool_eval(x, val) for x in sk[1:])


def bool_equiv(e1, e2, max_atoms=8):
    """are two tests the same propositional function of their (canonical) atomic parts?"""
    atoms = []
    s1, s2 = bool_atoms(e1, atoms), bool_atoms(e2, atoms)
    if len(atoms) > max_atoms:
        return False
    import itertools

    for val in itertools.product((False, True), repeat=len(atoms)):
        if bool_eval(s1, val) != bool_eval(s2, val):
            return False
    return True


def alternatives(mod, fn, rd, name, at, params=(), helpers=None, depth=0):
    """The values a local may hold at `at`, each with the conditions under which it holds:
    [(value node, [(canonical condition text, polarity)])].  Sees through if/else assignments, conditional
    expressions and tuple unpacking (a, b = (x, y) if c else (y, x))."""
    out = []
    for d in rd.defs(name, at):
        if d.node is None or d.kind not in ("assign", "unpack"):
            out.append((None, []))
            continue
        base = [(t, p) for t, p, _n in canon_guards(mod, d.stmt, fn, rd, params)]
        # only the if-statements enclosing the assignment distinguish the alternatives
        stack = [(d.node, [])]
        while stack:
            v, conds = stack.pop()
            if isinstance(v, ast.IfExp):
                ct = canon(v.test, rd, d.stmt, params, helpers)
                stack.append((v.body, conds + [(ct, True)]))
                stack.append((v.orelse, conds + [(ct, False)]))
                continue
            if d.kind == "unpack" and isinstance(d.index, tuple) and len(d.index) == 1:
                if isinstance(v, (ast.Tuple, ast.List)) and d.index[0] < len(v.elts):
                    out.append((v.elts[d.index[0]], base + conds))
                else:
                    out.append((ast.Subscript(value=v, slice=ast.Constant(value=d.index[0]), ctx=ast.Load()), base + conds))
            else:
                out.append((v, base + conds))
    return out

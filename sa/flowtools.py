"""Shape-independent views of a function, so that rules speak about *what is returned under which condition*
and not about how the code is laid out (early returns vs. a result variable, hoisted locals, guard styles)."""
import ast

from .core import canon, dominating_guards, norm, walk_no_nested


class Case:
    """one way a function produces its result: value expression + the conditions known to hold"""

    def __init__(self, value, guards, stmt, via_var=None):
        self.value, self.guards, self.stmt, self.via_var = value, guards, stmt, via_var

    def text(self, rd, params=()):
        return "None" if self.value is None else canon(self.value, rd, self.stmt, params)


def canon_guards(mod, node, fn, rd, params=()):
    """[(canonical text, polarity, parsed canonical test)] of the conditions dominating `node`"""
    out = []
    for t, pol in dominating_guards(mod, node, stop=fn):
        st = rd.stmt_of(t) if rd is not None else None
        txt = canon(t, rd, st if st is not None else (node if isinstance(node, ast.stmt) else None), params)
        try:
            parsed = ast.parse(txt, mode="eval").body
        except SyntaxError:
            parsed = t
        out.append((txt, pol, parsed))
    return out


def result_cases(mod, fn, rd, params=()):
    """Every (value, guards) pair the function may return.  `return v` with v a local that has several reaching
    definitions is expanded into one case per definition (guards = those of the defining statement; a definition made
    unconditionally at the top acts as the default)."""
    cases = []
    rets = [r for r in walk_no_nested(fn) if isinstance(r, ast.Return)]
    for r in rets:
        v = r.value
        rg = canon_guards(mod, r, fn, rd, params)
        if isinstance(v, ast.Name) and v.id not in params:
            defs = [d for d in rd.defs(v.id, r)]
            if len(defs) > 1 and all(d.kind == "assign" and d.node is not None for d in defs):
                for d in defs:
                    cases.append(Case(d.node, canon_guards(mod, d.stmt, fn, rd, params) + rg, d.stmt, via_var=v.id))
                continue
        cases.append(Case(v, rg, r))
    # falling off the end returns None
    if fn.body and not isinstance(fn.body[-1], (ast.Return, ast.Raise)):
        cases.append(Case(None, [], fn.body[-1]))
    return cases


def is_none(e):
    return e is None or (isinstance(e, ast.Constant) and e.value is None)


def guards_say(guards, text, pol=True):
    return any(t == text and p == pol for t, p, _n in guards)


def guards_not_none(guards, text):
    for t, pol, n in guards:
        if pol and t in ("%s is not None" % text, text):
            return True
        if not pol and t == "%s is None" % text:
            return True
        if pol and isinstance(n, ast.Call) and norm(n.func) == "isinstance" and norm(n.args[0]) == text and "None" not in norm(n.args[1]):
            return True
    return False

"""Flow-sensitive reaching definitions for locals of one function, on the structured AST.

No explicit CFG object is needed for the statement kinds the repository uses: the
analysis walks statement lists, merges at joins, iterates loops to a fixpoint, kills
paths at return/raise and routes break/continue to the loop exits.  `at[stmt]` is the
environment (name -> frozenset of Def) holding on entry of each statement, merged
over all paths and loop iterations that reach it.
"""
import ast

from .core import AnalysisError, walk_no_nested


class Def:
    """One definition of a local name."""

    __slots__ = ("kind", "node", "stmt", "name", "index")

    def __init__(self, kind, node, stmt, name, index=None):
        self.kind = kind  # param | assign | unpack | aug | for | with | except | import | def
        self.node = node  # value / iter / context expression (None for param)
        self.stmt = stmt
        self.name = name
        self.index = index

    def __repr__(self):
        return "Def(%s %s @%s)" % (self.kind, self.name, getattr(self.stmt, "lineno", "?"))


def _merge(a, b):
    if a is None:
        return b
    if b is None:
        return a
    if a is b:
        return a
    out = dict(a)
    for k, v in b.items():
        if k in out:
            if out[k] is not v:
                out[k] = out[k] | v
        else:
            out[k] = v
    return out


def _same(a, b):
    if a is None or b is None:
        return a is b
    if a.keys() != b.keys():
        return False
    return all(a[k] == b[k] for k in a)


def target_names(t):
    """Names bound by an assignment / for / with target, with their unpack index path."""
    if isinstance(t, ast.Name):
        return [(t.id, None)]
    if isinstance(t, (ast.Tuple, ast.List)):
        out = []
        for i, e in enumerate(t.elts):
            for n, idx in target_names(e):
                out.append((n, (i,) if idx is None else (i,) + tuple(idx)))
        return out
    if isinstance(t, ast.Starred):
        return target_names(t.value)
    if isinstance(t, ast.Attribute):
        # attribute stores on a plain name (self._x = ...) are tracked as pseudo-locals "self._x"
        parts = []
        n = t
        while isinstance(n, ast.Attribute):
            parts.append(n.attr)
            n = n.value
        if isinstance(n, ast.Name):
            return [(".".join([n.id] + parts[::-1]), None)]
    return []


class ReachingDefs:
    def __init__(self, fn):
        self.fn = fn
        self.at = {}
        self.exit_envs = []  # environments at return statements / fall-through
        self._defs = {}
        self._loops = []
        env = {}
        a = fn.args
        for arg in list(a.posonlyargs) + list(a.args) + list(a.kwonlyargs) + [x for x in (a.vararg, a.kwarg) if x]:
            env[arg.arg] = frozenset([self._def("param", None, fn, arg.arg)])
        self.params = [x.arg for x in list(a.posonlyargs) + list(a.args) + list(a.kwonlyargs)]
        out = self._block(fn.body, env)
        if out is not None:
            self.exit_envs.append(out)
        # statement lookup for expressions
        self._stmt_of = {}
        for st in walk_no_nested(fn):
            if isinstance(st, ast.stmt):
                for sub in self._own_exprs(st):
                    for n in ast.walk(sub):
                        self._stmt_of[id(n)] = st

    @staticmethod
    def _own_exprs(st):
        """Expression children evaluated at the entry of `st` itself (not nested statements)."""
        for field, val in ast.iter_fields(st):
            if field in ("body", "orelse", "finalbody", "handlers"):
                continue
            if isinstance(val, ast.AST):
                yield val
            elif isinstance(val, list):
                for v in val:
                    if isinstance(v, ast.AST) and not isinstance(v, ast.stmt):
                        yield v

    def _def(self, kind, node, stmt, name, index=None):
        key = (kind, id(node), id(stmt), name, index)
        d = self._defs.get(key)
        if d is None:
            d = self._defs[key] = Def(kind, node, stmt, name, index)
        return d

    def stmt_of(self, expr):
        return self._stmt_of.get(id(expr))

    def defs(self, name, at_node):
        """Reaching definitions of local `name` at the statement containing `at_node`."""
        st = at_node if isinstance(at_node, ast.stmt) else self.stmt_of(at_node)
        if st is None:
            return frozenset()
        env = self.at.get(id(st))
        if env is None:
            return frozenset()
        return env.get(name, frozenset())

    # ---- transfer
    def _block(self, stmts, env):
        for s in stmts:
            if env is None:
                break
            env = self._stmt(s, env)
        return env

    def _bind(self, env, target, kind, node, stmt):
        names = target_names(target)
        if not names:
            return env
        env = dict(env)
        for n, idx in names:
            env[n] = frozenset([self._def(kind if idx is None else "unpack", node, stmt, n, idx)])
        return env

    def _stmt(self, s, env):
        self.at[id(s)] = _merge(self.at.get(id(s)), env)
        if isinstance(s, ast.Assign):
            for t in s.targets:
                env = self._bind(env, t, "assign", s.value, s)
            return env
        if isinstance(s, ast.AnnAssign):
            if s.value is not None:
                env = self._bind(env, s.target, "assign", s.value, s)
            return env
        if isinstance(s, ast.AugAssign):
            if isinstance(s.target, ast.Name):
                env = dict(env)
                env[s.target.id] = frozenset([self._def("aug", s.value, s, s.target.id)])
            return env
        if isinstance(s, (ast.For, ast.AsyncFor)):
            return self._loop(s, env, s.target, s.iter)
        if isinstance(s, ast.While):
            return self._loop(s, env, None, None)
        if isinstance(s, ast.If):
            return _merge(self._block(s.body, env), self._block(s.orelse, env))
        if isinstance(s, (ast.With, ast.AsyncWith)):
            for it in s.items:
                if it.optional_vars is not None:
                    env = self._bind(env, it.optional_vars, "with", it.context_expr, s)
            return self._block(s.body, env)
        if isinstance(s, ast.Try) or s.__class__.__name__ == "TryStar":
            body_out = self._block(s.body, env)
            mid = env
            for sub in s.body:
                for n in ast.walk(sub):
                    if isinstance(n, ast.stmt) and id(n) in self.at:
                        mid = _merge(mid, self.at[id(n)])
            mid = _merge(mid, body_out)
            outs = []
            for h in s.handlers:
                henv = mid
                if h.name:
                    henv = dict(henv)
                    henv[h.name] = frozenset([self._def("except", h.type, h, h.name)])
                outs.append(self._block(h.body, henv))
            else_out = self._block(s.orelse, body_out) if s.orelse else body_out
            out = else_out
            for o in outs:
                out = _merge(out, o)
            if s.finalbody:
                fin_in = _merge(out, mid)
                fin_out = self._block(s.finalbody, fin_in)
                return fin_out if out is not None else None
            return out
        if isinstance(s, ast.Return):
            self.exit_envs.append(env)
            return None
        if isinstance(s, ast.Raise):
            return None
        if isinstance(s, ast.Continue):
            if self._loops:
                self._loops[-1]["continue"].append(env)
            return None
        if isinstance(s, ast.Break):
            if self._loops:
                self._loops[-1]["break"].append(env)
            return None
        if isinstance(s, (ast.FunctionDef, ast.AsyncFunctionDef, ast.ClassDef)):
            env = dict(env)
            env[s.name] = frozenset([self._def("def", s, s, s.name)])
            return env
        if isinstance(s, (ast.Import, ast.ImportFrom)):
            env = dict(env)
            for a in s.names:
                n = (a.asname or a.name).split(".")[0]
                env[n] = frozenset([self._def("import", None, s, n)])
            return env
        if s.__class__.__name__ == "Match":
            out = None
            for case in s.cases:
                out = _merge(out, self._block(case.body, env))
            return _merge(out, env)
        return env  # Expr, Assert, Pass, Delete, Global, Nonlocal

    def _loop(self, s, env, target, it):
        head = env
        exit_breaks = []
        for _ in range(8):
            self._loops.append({"continue": [], "break": []})
            benv = head
            if target is not None:
                benv = self._bind(benv, target, "for", it, s)
            out = self._block(s.body, benv)
            frame = self._loops.pop()
            for c in frame["continue"]:
                out = _merge(out, c)
            exit_breaks = frame["break"]
            new_head = _merge(head, out)
            if _same(new_head, head):
                break
            head = new_head
        else:
            raise AnalysisError("reaching definitions did not converge in %s" % getattr(self.fn, "name", "?"))
        # zero or more iterations, loop variable keeps its last value
        after = head
        if target is not None:
            after = _merge(head, self._bind(head, target, "for", it, s))
        after = self._block(s.orelse, after) if s.orelse else after
        for b in exit_breaks:
            after = _merge(after, b)
        return after


class _AttrRef(ast.Attribute):
    """Marker: an attribute chain resolved to a tracked pseudo-local."""

    def __init__(self, dotted, base):
        self.dotted = dotted
        self.base = base

    def __iter__(self):
        return iter((self.dotted, self.base))


class Provenance:
    """Which parameters can the value of an expression derive from (flow-sensitive)."""

    def __init__(self, fn, rd=None):
        self.fn = fn
        self.rd = rd or ReachingDefs(fn)
        self._memo = {}
        self.comp_bind = {}  # id(Name node inside comprehension) -> iter expression
        for n in walk_no_nested(fn):
            if isinstance(n, (ast.ListComp, ast.SetComp, ast.GeneratorExp, ast.DictComp)):
                binds = {}
                for g in n.generators:
                    for nm, _ in target_names(g.target):
                        binds[nm] = g.iter
                for sub in ast.walk(n):
                    if isinstance(sub, ast.Name) and sub.id in binds and isinstance(sub.ctx, ast.Load):
                        self.comp_bind.setdefault(id(sub), binds[sub.id])

    def roots(self, expr, at=None):
        """Set of parameter names (and 'G:<name>' for non-local names) the expression derives from."""
        at = at if at is not None else self.rd.stmt_of(expr)
        return self._roots(expr, at, frozenset())

    def _roots(self, expr, at, active):
        out = set()
        for n in self._names(expr):
            if isinstance(n, ast.Attribute):
                # self._x with a tracked pseudo-local definition: follow the stored value
                dotted, base = n
                ds = self.rd.defs(dotted, at) if at is not None else frozenset()
                for d in ds:
                    out |= self._def_roots(d, active)
                continue
            if id(n) in self.comp_bind:
                out |= self._roots(self.comp_bind[id(n)], at, active)
                continue
            ds = self.rd.defs(n.id, at) if at is not None else frozenset()
            if not ds:
                out.add("G:" + n.id)
                continue
            for d in ds:
                out |= self._def_roots(d, active)
        return out

    def _names(self, expr):
        """Loaded names of an expression; an attribute chain on a name that has a tracked
        pseudo-local definition (self._x = ...) is yielded as (dotted, base) instead."""
        stack = [expr]
        while stack:
            n = stack.pop()
            if isinstance(n, ast.Name):
                if isinstance(n.ctx, ast.Load):
                    yield n
                continue
            if isinstance(n, ast.Lambda):
                continue
            if isinstance(n, ast.Attribute) and isinstance(n.ctx, ast.Load):
                parts, b = [], n
                while isinstance(b, ast.Attribute):
                    parts.append(b.attr)
                    b = b.value
                if isinstance(b, ast.Name) and id(b) not in self.comp_bind:
                    parts = parts[::-1]
                    st = self.rd.stmt_of(n)
                    hit = None
                    for k in range(len(parts), 0, -1):
                        dotted = ".".join([b.id] + parts[:k])
                        if st is not None and self.rd.defs(dotted, st):
                            hit = dotted
                            break
                    if hit is not None:
                        yield _AttrRef(hit, b)
                        continue
            stack.extend(ast.iter_child_nodes(n))

    def _def_roots(self, d, active):
        if d.kind == "param":
            return {d.name}
        if d.kind in ("import", "def", "except"):
            return set()
        key = id(d)
        if key in self._memo:
            return self._memo[key]
        if key in active:
            return set()
        active = active | {key}
        if d.kind == "aug":
            r = self._roots(d.node, d.stmt, active)
            for p in self.rd.defs(d.name, d.stmt):
                r |= self._def_roots(p, active)
        else:
            r = self._roots(d.node, d.stmt, active) if d.node is not None else set()
        if not (active - {key}):
            self._memo[key] = r
        return r

    def def_root_sets(self, expr, at=None):
        """For an operand: list of (description, roots) — one entry per reaching definition when the
        operand is a bare local name, otherwise a single entry for the whole expression."""
        at = at if at is not None else self.rd.stmt_of(expr)
        if isinstance(expr, ast.Name) and id(expr) not in self.comp_bind:
            ds = self.rd.defs(expr.id, at)
            if ds:
                out = []
                for d in ds:
                    if d.kind == "assign" and isinstance(d.node, ast.Constant):
                        continue  # neutral initialisation (None / True / 0)
                    if d.kind == "assign" and isinstance(d.node, ast.Name) and not isinstance(d.node, ast.Constant):
                        # x = y : follow y's own definitions one by one
                        sub = self.def_root_sets(d.node, d.stmt)
                        out.extend(sub)
                        continue
                    out.append((d, self._def_roots(d, frozenset())))
                return out
        return [(expr, self.roots(expr, at))]

"""Extraction of field writes (protobuf writer) and field reads (protobuf reader) from the
message builders / factories, with the domain attribute each written value comes from and the
domain attribute / constructor keyword each read value goes to."""
import ast

from .core import AnalysisError, attr_chain, call_name, dominating_guards, norm, walk_no_nested
from .dataflow import ReachingDefs
from .effects import type_names

WP = "commonroad/common/writer/file_writer_protobuf.py"
RP = "commonroad/common/reader/file_reader_protobuf.py"


class FieldWrite:
    def __init__(self, field, how, value, source, enum, node, guards, loops):
        self.field, self.how, self.value, self.source, self.enum, self.node, self.guards, self.loops = field, how, value, source, enum, node, guards, loops


class Builder:
    def __init__(self, cls, fn):
        self.cls, self.fn = cls, fn
        self.msg_var = None
        self.msg_type = None  # (pb2 module, message name)
        self.writes = []
        self.generic = []  # generic loops: ('state' | 'signal', node)
        self.params = [a.arg for a in fn.args.args if a.arg not in ("cls", "self")]
        self.param_ann = {a.arg: a.annotation for a in fn.args.args if a.annotation is not None}


def strip_enum(expr):
    """P.Value(x.name) -> (proto enum path text, x expr)"""
    if isinstance(expr, ast.Call) and isinstance(expr.func, ast.Attribute) and expr.func.attr == "Value" and len(expr.args) == 1:
        a = expr.args[0]
        if isinstance(a, ast.Attribute) and a.attr in ("name", "value"):
            return norm(expr.func.value), a.value
        return norm(expr.func.value), a
    return None, expr


class WriterPB:
    def __init__(self, repo):
        self.repo = repo
        self.mod = repo.mod(WP)
        self.builders = {}
        # a private class that only serves as a base of others (shared template code) is not a builder of its own: its
        # subclasses carry the concrete copies (normal form, sa/unroll.py)
        templates = {b for c in self.mod.classes.values() for b in c.bases if b.startswith("_") and b in self.mod.classes}
        for c in self.mod.classes.values():
            f = c.methods.get("create_message")
            if f is not None and c.name not in templates:
                self.builders[c.name] = self._extract(c, f)

    def _extract(self, cls, fn):
        b = Builder(cls, fn)
        rd = ReachingDefs(fn)
        mod = self.mod
        # message variable: v = x_pb2.Name()
        for n in walk_no_nested(fn):
            if isinstance(n, ast.Assign) and isinstance(n.targets[0], ast.Name) and isinstance(n.value, ast.Call):
                cn = call_name(n.value) or ""
                if "_pb2." in cn and not n.value.args and b.msg_var is None:
                    b.msg_var = n.targets[0].id
                    b.msg_type = tuple(cn.split(".", 1))
        if b.msg_var is None:
            raise AnalysisError("%s.create_message: message variable not found" % cls.name)
        mv = b.msg_var

        def loops_of(node):
            out = []
            p = mod.parent.get(node)
            while p is not None and p is not fn:
                if isinstance(p, ast.For):
                    out.append((norm(p.target), norm(p.iter)))
                p = mod.parent.get(p)
            return out

        def source(expr, at, depth=0):
            """attribute path on a builder parameter the value derives from"""
            if depth > 8:
                return None
            e = expr
            if isinstance(e, ast.Call):
                cn = call_name(e) or ""
                if cn.endswith(".create_message") and e.args:
                    parts = [source(a, at, depth + 1) for a in e.args]
                    parts = [x for x in parts if x]
                    return "|".join(parts) if parts else None
                if cn in ("float", "int", "str", "bool", "list", "set", "np.float64") and e.args:
                    return source(e.args[0], at, depth + 1)
                if cn == "getattr" and len(e.args) >= 2:
                    s = source(e.args[0], at, depth + 1)
                    return "%s.{%s}" % (s, norm(e.args[1]))
                return None
            if isinstance(e, ast.Subscript):
                s = source(e.value, at, depth + 1)
                if isinstance(e.slice, ast.Constant) and s:
                    return "%s[%r]" % (s, e.slice.value)
                return s
            ch = attr_chain(e)
            if not ch:
                return None
            head, rest = ch[0], ch[1:]
            if head in b.params:
                return ".".join(ch)
            for tgt, it in loops_of(at):
                names = [x.strip(" ()") for x in tgt.split(",")]
                if head in names:
                    try:
                        ite = ast.parse(it, mode="eval").body
                    except SyntaxError:
                        return None
                    if isinstance(ite, ast.Call) and call_name(ite) in ("enumerate", "list", "sorted", "reversed") and ite.args:
                        ite = ite.args[0]
                    s = source(ite, at, depth + 1)
                    return ".".join([(s or "?") + "[*]"] + rest)
            ds = [d for d in rd.defs(head, at)]
            vals = [d.node for d in ds if d.kind == "assign" and d.node is not None]
            if len(vals) >= 1:
                srcs = {source(v, d.stmt, depth + 1) for v, d in zip(vals, [d for d in ds if d.kind == "assign" and d.node is not None])}
                srcs.discard(None)
                if len(srcs) == 1:
                    return ".".join([srcs.pop()] + rest)
                if srcs:
                    return "|".join(sorted(srcs))
            return None

        for n in walk_no_nested(fn):
            tgt = val = how = None
            node = n
            if isinstance(n, ast.Assign) and len(n.targets) == 1 and isinstance(n.targets[0], ast.Attribute) and isinstance(n.targets[0].value, ast.Name) and n.targets[0].value.id == mv:
                tgt, val, how = n.targets[0].attr, n.value, "assign"
            elif isinstance(n, ast.Call) and isinstance(n.func, ast.Attribute) and n.func.attr in ("append", "extend", "CopyFrom", "MergeFrom") and n.args:
                recv = n.func.value
                if isinstance(recv, ast.Attribute) and isinstance(recv.value, ast.Name) and recv.value.id == mv:
                    tgt, val, how = recv.attr, n.args[0], n.func.attr
                elif isinstance(recv, ast.Call) and call_name(recv) == "getattr" and recv.args and norm(recv.args[0]) == mv:
                    b.generic.append(("getattr-" + n.func.attr, n))
                    continue
            elif isinstance(n, ast.Call) and call_name(n) == "setattr" and n.args and norm(n.args[0]) == mv:
                b.generic.append(("setattr", n))
                continue
            if tgt is None:
                continue
            st = node
            while not isinstance(st, ast.stmt):
                st = mod.parent[st]
            penum, inner = strip_enum(val)
            src = source(inner, st)
            guards = [(norm(t), pol) for t, pol in dominating_guards(mod, st, stop=fn)]
            b.writes.append(FieldWrite(tgt, how, val, src, penum, n, guards, loops_of(st)))
        return b


class FieldRead:
    def __init__(self, field, node, guards, dest, enum, pyenum):
        self.field, self.node, self.guards, self.dests, self.enum, self.pyenum = field, node, guards, dest, enum, pyenum


class Factory:
    def __init__(self, cls, fn):
        self.cls, self.fn = cls, fn
        self.msg_param = None
        self.reads = []
        self.hasfield = set()
        self.generic = []
        self.ctor = None  # (class name, call node)
        self.dests = {}  # field -> set of destination names (ctor kw/position name or attribute)


class ReaderPB:
    def __init__(self, repo):
        self.repo = repo
        self.mod = repo.mod(RP)
        self.factories = {}
        for c in self.mod.classes.values():
            f = c.methods.get("create_from_message")
            if f is not None:
                fa = self._extract(c, f)
                ann = None
                for a in f.args.args:
                    if a.arg == fa.msg_param and a.annotation is not None:
                        ann = norm(a.annotation)
                for mn, m in c.methods.items():
                    if mn == "create_from_message" or ann is None:
                        continue
                    if any(a.annotation is not None and norm(a.annotation) == ann for a in m.args.args):
                        sub = self._extract(c, m, param_ann=ann)
                        fa.reads += sub.reads
                        fa.hasfield |= sub.hasfield
                        fa.generic += sub.generic
                        for k, v in sub.dests.items():
                            fa.dests.setdefault(k, set()).update(v)
                self.factories[c.name] = fa

    def _extract(self, cls, fn, param_ann=None):
        fa = Factory(cls, fn)
        mod = self.mod
        rd = ReachingDefs(fn)
        params = [a.arg for a in fn.args.args if a.arg not in ("cls", "self")]
        if not params:
            raise AnalysisError("%s.create_from_message has no message parameter" % cls.name)
        mp = fa.msg_param = params[0]
        if param_ann is not None:
            for a in fn.args.args:
                if a.annotation is not None and norm(a.annotation) == param_ann:
                    mp = fa.msg_param = a.arg
        aliases = {mp}

        def field_of(expr):
            """message field an expression reads (msg.f / list(msg.f) / P.Name(msg.f) / PyEnum[P.Name(msg.f)] ...)"""
            out = []
            for x in ast.walk(expr):
                if isinstance(x, ast.Attribute) and isinstance(x.value, ast.Name) and x.value.id in aliases and isinstance(x.ctx, ast.Load) and x.attr not in ("HasField", "DESCRIPTOR"):
                    out.append(x)
            return out

        for n in walk_no_nested(fn):
            if isinstance(n, ast.Call) and isinstance(n.func, ast.Attribute) and n.func.attr == "HasField" and isinstance(n.func.value, ast.Name) and n.func.value.id in aliases and n.args:
                if isinstance(n.args[0], ast.Constant):
                    fa.hasfield.add(n.args[0].value)
                else:
                    fa.generic.append(("HasField", n))
            if isinstance(n, ast.Call) and call_name(n) == "getattr" and n.args and norm(n.args[0]) in aliases:
                fa.generic.append(("getattr", n))
        # destinations: for each statement that contains a field read, where does the value go
        def dest_names(name, at, depth=0):
            """where the value held in local `name` ends up: constructor arguments / attribute stores"""
            out = set()
            if depth > 6:
                return out
            for u in walk_no_nested(fn):
                if isinstance(u, ast.Call) and isinstance(u.func, ast.Name):
                    c = self.repo.resolve_class(mod, u.func.id)
                    if c is not None and not c.is_enum and u.func.id not in mod.classes:
                        from .classfacts import ctor_model

                        cm = ctor_model(self.repo, c)
                        pn = [p[0] for p in cm.params]
                        for i, a in enumerate(u.args):
                            if any(isinstance(x, ast.Name) and x.id == name for x in ast.walk(a)) and i < len(pn):
                                out.add(pn[i])
                        for kw in u.keywords:
                            if kw.arg and any(isinstance(x, ast.Name) and x.id == name for x in ast.walk(kw.value)):
                                out.add(kw.arg)
                if isinstance(u, ast.Assign) and any(isinstance(x, ast.Name) and x.id == name for x in ast.walk(u.value)):
                    t = u.targets[0]
                    if isinstance(t, ast.Attribute) and isinstance(t.value, ast.Name) and t.value.id not in aliases:
                        out.add(t.attr)
                    elif isinstance(t, ast.Name) and t.id != name:
                        out |= dest_names(t.id, u, depth + 1)
                    elif isinstance(t, ast.Tuple):
                        pass
                if isinstance(u, ast.Call) and isinstance(u.func, ast.Attribute) and u.func.attr in ("append", "add", "update", "extend") and isinstance(u.func.value, ast.Name) and u.func.value.id != name:
                    if any(isinstance(x, ast.Name) and x.id == name for a in u.args for x in ast.walk(a)):
                        out |= dest_names(u.func.value.id, u, depth + 1)
                if isinstance(u, ast.Return) and u.value is not None and any(isinstance(x, ast.Name) and x.id == name for x in ast.walk(u.value)):
                    if isinstance(u.value, ast.Tuple):
                        for i, e in enumerate(u.value.elts):
                            if any(isinstance(x, ast.Name) and x.id == name for x in ast.walk(e)):
                                out.add("<return %d>" % i)
                    else:
                        out.add("<return>")
            return out

        for n in walk_no_nested(fn):
            if not isinstance(n, ast.stmt):
                continue
            own = []
            for field in ("value", "test", "iter"):
                v = getattr(n, field, None)
                if isinstance(v, ast.AST):
                    own.append(v)
            for v in own:
                for x in field_of(v):
                    guards = [(norm(t), pol) for t, pol in dominating_guards(mod, n, stop=fn)]
                    dests = set()
                    enum = pyenum = None
                    # enum transport around the read
                    p = mod.parent.get(x)
                    while p is not None and p is not n:
                        if isinstance(p, ast.Call) and isinstance(p.func, ast.Attribute) and p.func.attr == "Name":
                            enum = norm(p.func.value)
                        if isinstance(p, ast.Subscript) and isinstance(p.value, ast.Name):
                            pyenum = p.value.id
                        p = mod.parent.get(p)
                    # the field is the iterable of a comprehension: the transport is applied to the comprehension variable
                    pc_ = mod.parent.get(x)
                    while pc_ is not None and pc_ is not n and not isinstance(pc_, (ast.SetComp, ast.ListComp, ast.GeneratorExp, ast.DictComp)):
                        pc_ = mod.parent.get(pc_)
                    if isinstance(pc_, (ast.SetComp, ast.ListComp, ast.GeneratorExp)):
                        tv = [g.target.id for g in pc_.generators if isinstance(g.target, ast.Name) and any(y is x for y in ast.walk(g.iter))]
                        for u in ast.walk(pc_.elt):
                            if tv and isinstance(u, ast.Call) and isinstance(u.func, ast.Attribute) and u.func.attr == "Name" and any(isinstance(y, ast.Name) and y.id in tv for y in ast.walk(u)):
                                enum = norm(u.func.value)
                            if tv and isinstance(u, ast.Subscript) and isinstance(u.value, ast.Name) and any(isinstance(y, ast.Name) and y.id in tv for y in ast.walk(u.slice)):
                                c_ = self.repo.resolve_class(mod, u.value.id)
                                if c_ is not None and c_.is_enum:
                                    pyenum = u.value.id
                    if isinstance(n, ast.Assign):
                        t = n.targets[0]
                        if isinstance(t, ast.Attribute) and isinstance(t.value, ast.Name):
                            dests.add(t.attr)
                        elif isinstance(t, ast.Name):
                            dests |= dest_names(t.id, n)
                            # enum applied later on the local (name = P.Name(msg.f); obj.x = Py[name])
                            for u in walk_no_nested(fn):
                                if isinstance(u, ast.Subscript) and isinstance(u.value, ast.Name) and isinstance(u.slice, ast.Name) and u.slice.id == t.id:
                                    pyenum = pyenum or u.value.id
                        elif isinstance(t, ast.Tuple):
                            for e in t.elts:
                                if isinstance(e, ast.Name):
                                    dests |= dest_names(e.id, n)
                    elif isinstance(n, ast.For):
                        if isinstance(n.target, ast.Name):
                            dests |= dest_names(n.target.id, n)
                            for u in ast.walk(n):
                                if isinstance(u, ast.Call) and isinstance(u.func, ast.Attribute) and u.func.attr == "Name" and any(isinstance(y, ast.Name) and y.id == n.target.id for y in ast.walk(u)):
                                    enum = norm(u.func.value)
                                if isinstance(u, ast.Subscript) and isinstance(u.value, ast.Name):
                                    c_ = self.repo.resolve_class(mod, u.value.id)
                                    if c_ is not None and c_.is_enum:
                                        pyenum = u.value.id
                    elif isinstance(n, ast.Return):
                        dests.add("<return>")
                    elif isinstance(n, ast.Expr):
                        pass
                    # direct use as constructor argument
                    pc = mod.parent.get(x)
                    while pc is not None and pc is not n:
                        if isinstance(pc, ast.Call) and isinstance(pc.func, ast.Name):
                            c = self.repo.resolve_class(mod, pc.func.id)
                            if c is not None and not c.is_enum and pc.func.id not in mod.classes:
                                from .classfacts import ctor_model

                                cm = ctor_model(self.repo, c)
                                pn = [p_[0] for p_ in cm.params]
                                for i, a in enumerate(pc.args):
                                    if any(y is x for y in ast.walk(a)) and i < len(pn):
                                        dests.add(pn[i])
                                for kw in pc.keywords:
                                    if kw.arg and any(y is x for y in ast.walk(kw.value)):
                                        dests.add(kw.arg)
                        pc = mod.parent.get(pc)
                    fa.reads.append(FieldRead(x.attr, x, guards, dests, enum, pyenum))
                    fa.dests.setdefault(x.attr, set()).update(dests)
        return fa

"""Thorough tier: instance liveness of the rules on the *current* source.

For each property a list of source edits (mutants) is applied in memory (Repo overrides; nothing
is written to disk, nothing is executed) and the property's rules are re-run on the edited tree:
  kind 'break'  — an edit that breaks the property: the check must report a NEW finding
                  (optionally of the named rule) that the unedited tree does not have;
  kind 'benign' — a behaviour-preserving rewrite: the check must report nothing new.
An edit whose anchor text no longer occurs in the current source is reported as 'stale' (the
mutant list needs maintenance) but is not a failure of the property.

In addition every change of the seeded corpus (/verif/seeded/<pid>/*/patch.diff — written by independent
sub-agents who saw only the property text, DESIGN.md §9) is applied the same way, in memory, through a small
unified-diff applier: kind 'break' must give a new finding of the property, kind 'benign' none.

Mutants live in sa/mutants/<pid>.py as a list MUTANTS of dicts:
  {name, kind, file, old, new, rule (optional), count (optional, default 1)}  or, for several edits in one file,
  {name, kind, file, edits: [(old, new[, count]), ...], rule}
"""
import importlib
import os
import sys
import time
from concurrent.futures import ProcessPoolExecutor

from . import core


class PatchError(Exception):
    pass


def apply_patch(root, text):
    """{relative path: new source} for a unified diff (git format), applied to the files under root in memory.
    Hunks are located by their old lines (exact match, nearest to the stated position)."""
    out = {}
    cur = None
    hunks = []

    def flush():
        if cur is None:
            return
        path = os.path.join(root, cur)
        with open(path, encoding="utf-8") as fh:
            lines = fh.read().split("\n")
        delta = 0
        for start, old, new in hunks:
            pos = None
            guess = start - 1 + delta
            for d in sorted(range(-400, 401), key=abs):
                i = guess + d
                if 0 <= i <= len(lines) - len(old) and lines[i : i + len(old)] == old:
                    pos = i
                    break
            if pos is None:
                raise PatchError("hunk at line %d of %s does not apply" % (start, cur))
            lines[pos : pos + len(old)] = new
            delta += len(new) - len(old)
        out[cur] = "\n".join(lines)

    old = new = None
    start = 0
    for ln in text.split("\n"):
        if ln.startswith("diff --git "):
            if old is not None:
                hunks.append((start, old, new))
                old = new = None
            flush()
            cur, hunks = None, []
        elif ln.startswith("+++ "):
            t = ln[4:].strip()
            cur = t[2:] if t.startswith("b/") else t
            if t == "/dev/null":
                raise PatchError("file removal is not supported")
        elif ln.startswith("--- "):
            if ln[4:].strip() == "/dev/null":
                raise PatchError("file creation is not supported")
        elif ln.startswith("@@"):
            if old is not None:
                hunks.append((start, old, new))
            start = int(ln.split()[1].split(",")[0][1:])
            old, new = [], []
        elif old is not None:
            if ln.startswith("+"):
                new.append(ln[1:])
            elif ln.startswith("-"):
                old.append(ln[1:])
            elif ln.startswith(" "):
                old.append(ln[1:])
                new.append(ln[1:])
            elif ln == "":
                # blank context line whose leading space was stripped, or the end of the patch
                old.append("")
                new.append("")
            elif ln.startswith("\\"):
                pass
    if old is not None:
        while old and new and old[-1] == "" and new[-1] == "":
            old.pop()
            new.pop()
        hunks.append((start, old, new))
    flush()
    if not out:
        raise PatchError("no file in patch")
    return out


def seeded_mutants(pid):
    base = os.path.join(os.path.dirname(os.path.dirname(os.path.abspath(__file__))), "seeded", pid)
    out = []
    if not os.path.isdir(base):
        return out
    import json

    for name in sorted(os.listdir(base)):
        pp = os.path.join(base, name, "patch.diff")
        mp = os.path.join(base, name, "meta.json")
        if not (os.path.exists(pp) and os.path.exists(mp)):
            continue
        try:
            meta = json.load(open(mp))
        except Exception:
            continue
        if not meta.get("confirmation", {}).get("confirmed"):
            continue  # only changes whose demonstration was reproduced count
        out.append({"name": "seeded/%s/%s" % (pid, name), "kind": "benign" if meta.get("kind") == "benign" else "break", "patch": pp})
    return out


def _run_prop(pid, repo):
    mod = importlib.import_module("sa.props.%s" % pid.lower())
    res = core.Result(pid)
    mod.run(repo, res, "quick")
    return res


def _one(args):
    pid, root, m, base_keys = args
    try:
        if "patch" in m:
            try:
                with open(m["patch"], encoding="utf-8") as fh:
                    overrides = apply_patch(root, fh.read())
            except PatchError as e:
                return (m["name"], "stale", str(e))
        else:
            rel = m["file"]
            path = os.path.join(root, rel)
            with open(path, encoding="utf-8") as fh:
                src = fh.read()
            edits = m.get("edits") or [(m["old"], m["new"], m.get("count", 1))]
            new_src = src
            for e in edits:
                old, new = e[0], e[1]
                want = e[2] if len(e) > 2 else 1
                cnt = new_src.count(old)
                if cnt != want:
                    return (m["name"], "stale", "anchor text occurs %d times: %r" % (cnt, old[:60]))
                new_src = new_src.replace(old, new)
            overrides = {rel: new_src}
        for rel, new_src in overrides.items():
            try:
                compile(new_src, rel, "exec")
            except SyntaxError as e:
                return (m["name"], "stale", "mutant does not compile: %s" % e)
        repo = core.Repo(root, overrides=overrides)
        try:
            res = _run_prop(pid, repo)
            try:
                res.verify_instance_counts()
            except core.AnalysisError as e:
                # losing instances is also a detection (exit 2, never a silent pass)
                if m["kind"] == "break":
                    return (m["name"], "caught", "ANALYSIS-ERROR: %s" % e)
                return (m["name"], "refused", "ANALYSIS-ERROR (exit 2, no alarm) on a benign rewrite: %s" % e)
        except core.AnalysisError as e:
            if m["kind"] == "break":
                return (m["name"], "caught", "ANALYSIS-ERROR: %s" % e)
            return (m["name"], "refused", "ANALYSIS-ERROR (exit 2, no alarm) on a benign rewrite: %s" % e)
        new = [f for f in res.findings if f.key not in base_keys]
        if m["kind"] == "break":
            want = m.get("rule")
            hit = [f for f in new if want is None or f.rule == want]
            if hit:
                return (m["name"], "caught", str(hit[0])[:300])
            return (m["name"], "missed", "no new finding%s" % (" of rule %s (got %s)" % (want, sorted({f.rule for f in new})) if want else ""))
        else:
            if new:
                return (m["name"], "false-alarm", str(new[0])[:300])
            return (m["name"], "silent", "")
    except Exception as e:  # pragma: no cover
        import traceback

        return (m["name"], "error", traceback.format_exc()[-600:])


def run(pid, repo, base_res, jobs=None):
    """Returns (summary dict, list of failure strings)."""
    try:
        mm = importlib.import_module("sa.mutants.%s" % pid.lower())
    except ModuleNotFoundError:
        return {"mutants": 0}, []
    n_seeded = len(seeded_mutants(pid))
    muts = list(mm.MUTANTS) + seeded_mutants(pid)
    base_keys = {f.key for f in base_res.findings}
    args = [(pid, repo.root, m, base_keys) for m in muts]
    t0 = time.time()
    jobs = jobs or min(16, max(1, len(args)))
    if jobs > 1 and len(args) > 2:
        with ProcessPoolExecutor(max_workers=jobs) as ex:
            results = list(ex.map(_one, args))
    else:
        results = [_one(a) for a in args]
    failures = []
    summary = {"mutants": len(muts), "seeded": n_seeded, "caught": 0, "silent": 0, "stale": 0, "missed": 0, "false-alarm": 0, "refused": 0, "error": 0, "details": []}
    for name, status, info in results:
        summary[status] = summary.get(status, 0) + 1
        summary["details"].append({"mutant": name, "status": status, "info": info})
        if status in ("missed", "false-alarm", "refused", "error"):
            failures.append("%s: %s %s" % (name, status, info))
    summary["wall_s"] = round(time.time() - t0, 2)
    return summary, failures

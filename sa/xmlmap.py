"""Static evaluation of the attribute-name mapping functions used by writer and readers
(`_map_to_xml_prop`, `_map_to_prop`).  The function is folded over the constant attribute / element name with the
abstract evaluator (sa/strdom.py): if-chains, table look-ups, regex substitutions with constant patterns (folded
with the standard library's re on the constant) are all just evaluated; nothing of the repository is executed.
A function the evaluator cannot fold is an ANALYSIS-ERROR (the checker refuses rather than guesses)."""
import re

from .core import AnalysisError


def snake_to_camel(s):
    return re.sub(r"_(\w)", lambda m: m.group(1).upper(), s)


def camel_to_snake(s):
    return re.sub("(?<!^)(?=[A-Z])", "_", s).lower()


class NameMap:
    def __init__(self, fn, where, repo=None, cls=None, mod=None):
        self.fn, self.where, self.repo, self.cls, self.mod = fn, where, repo, cls, mod
        self.cache = {}

    def __call__(self, name):
        if name in self.cache:
            return self.cache[name]
        from .strdom import ClassRef, Ev, FuncV, Str, _Raise, decorators

        ev = Ev(self.repo)
        d = decorators(self.fn)
        recv = None if "staticmethod" in d else (ClassRef(self.cls) if self.cls is not None else None)
        try:
            r = ev.call_fn(FuncV(self.fn, self_val=recv, cls=self.cls, mod=self.mod), [Str.lit(name)], {}, self.fn)
        except _Raise as x:
            r = None
            self.cache[name] = "<raises %s>" % x.what
            return self.cache[name]
        if not (isinstance(r, Str) and r.is_lit()):
            raise AnalysisError("%s(%r) does not fold to a constant name" % (self.where, name))
        self.cache[name] = r.text()
        return self.cache[name]

"""Static evaluation of the attribute-name mapping functions used by writer and readers
(`_map_to_xml_prop`, `_map_to_prop`): an if-chain of constant comparisons with a regex fallback.
The fallback must be one of the two recognised idioms (snake->camel, camel->snake); anything else
is an ANALYSIS-ERROR (the checker refuses rather than guesses)."""
import ast
import re

from .core import AnalysisError, norm, walk_no_nested


def snake_to_camel(s):
    return re.sub(r"_(\w)", lambda m: m.group(1).upper(), s)


def camel_to_snake(s):
    return re.sub("(?<!^)(?=[A-Z])", "_", s).lower()


def fallback_kind(expr):
    """'s2c' | 'c2s' | None for the expression used in the else branch"""
    t = norm(expr)
    if isinstance(expr, ast.Call) and norm(expr.func) == "re.sub" and len(expr.args) == 3 and isinstance(expr.args[0], ast.Constant):
        pat = expr.args[0].value
        if pat == r"_(\w)" and isinstance(expr.args[1], ast.Lambda) and ".group(1).upper()" in norm(expr.args[1]):
            return "s2c"
    if isinstance(expr, ast.Call) and isinstance(expr.func, ast.Attribute) and expr.func.attr == "lower" and isinstance(expr.func.value, ast.Call) and norm(expr.func.value.func) == "re.sub":
        a = expr.func.value.args
        if len(a) == 3 and isinstance(a[0], ast.Constant) and a[0].value == "(?<!^)(?=[A-Z])" and isinstance(a[1], ast.Constant) and a[1].value == "_":
            return "c2s"
    return None


class NameMap:
    def __init__(self, fn, where):
        self.special = {}
        self.kind = None
        self.fn = fn
        params = [a.arg for a in fn.args.args if a.arg not in ("cls", "self")]
        if len(params) != 1:
            raise AnalysisError("%s: expected one parameter" % where)
        p = params[0]
        node = None
        for s in fn.body:
            if isinstance(s, ast.If):
                node = s
        if node is None:
            raise AnalysisError("%s: if-chain not found" % where)
        while isinstance(node, ast.If):
            t = node.test
            key = None
            if isinstance(t, ast.Compare) and len(t.ops) == 1 and isinstance(t.ops[0], ast.Eq):
                l, r = t.left, t.comparators[0]
                if isinstance(l, ast.Constant) and norm(r) == p:
                    key = l.value
                elif isinstance(r, ast.Constant) and norm(l) == p:
                    key = r.value
            if key is None or len(node.body) != 1 or not isinstance(node.body[0], ast.Assign) or not isinstance(node.body[0].value, ast.Constant):
                raise AnalysisError("%s: unrecognised branch %s" % (where, norm(t)))
            self.special[key] = node.body[0].value.value
            if len(node.orelse) == 1 and isinstance(node.orelse[0], ast.If):
                node = node.orelse[0]
            else:
                if len(node.orelse) != 1 or not isinstance(node.orelse[0], ast.Assign):
                    raise AnalysisError("%s: unrecognised fallback" % where)
                self.kind = fallback_kind(node.orelse[0].value)
                if self.kind is None:
                    raise AnalysisError("%s: fallback %s is not a recognised snake/camel idiom" % (where, norm(node.orelse[0].value)))
                node = None

    def __call__(self, name):
        if name in self.special:
            return self.special[name]
        return snake_to_camel(name) if self.kind == "s2c" else camel_to_snake(name)

"""Extraction of what the XML reader looks up, and which looked-up values reach which constructor
keyword, by abstract interpretation of the factory functions in
commonroad/common/reader/file_reader_xml.py (nothing is executed).

A *node expression* denotes an XML element relative to a node-typed parameter of the function:
  param                      -> ()
  N.find("t") / findall("t") -> path(N) + ("t",)
  for c in N.findall("t")    -> c: path(N) + ("t",)
  for c in list(N) / N       -> c: path(N) + ("*",)
A *lookup* is (path, kind, name) with kind in {child, attr, text, tag, iter}.
`provenance(expr)` is the set of lookups whose value can flow into expr (data flow through locals,
list accumulation, helper calls with path substitution; control flow for constants assigned under
a test on a looked-up value).
"""
import ast

from .core import AnalysisError, attr_chain, call_name, dominating_guards, norm, walk_no_nested
from .dataflow import ReachingDefs

RX = "commonroad/common/reader/file_reader_xml.py"


class FnInfo:
    def __init__(self, cls, fn, mod):
        self.cls, self.fn, self.mod = cls, fn, mod
        self.rd = ReachingDefs(fn)
        self.params = [a.arg for a in fn.args.args]
        self.node_params = []
        for a in fn.args.args:
            ann = norm(a.annotation) if a.annotation is not None else ""
            if "Element" in ann or a.arg in ("xml_node", "node") or a.arg.endswith("_node"):
                self.node_params.append(a.arg)

    @property
    def name(self):
        return "%s.%s" % (self.cls.name, self.fn.name) if self.cls is not None else self.fn.name


class ReaderModel:
    def __init__(self, repo, rel=RX):
        self.repo = repo
        self.mod = repo.mod(rel)
        self.funcs = {}
        for c in self.mod.classes.values():
            for n, f in c.methods.items():
                self.funcs[(c.name, n)] = FnInfo(c, f, self.mod)
        for n, f in self.mod.functions.items():
            self.funcs[(None, n)] = FnInfo(None, f, self.mod)
        self._lookups = {}
        self._retprov = {}
        self._stack = set()

    # ---------------------------------------------------------------- callee resolution
    def resolve(self, fi, call):
        f = call.func
        if isinstance(f, ast.Name) and (None, f.id) in self.funcs:
            return (None, f.id)
        if isinstance(f, ast.Attribute) and isinstance(f.value, ast.Name):
            v = f.value.id
            if v in ("cls", "self") and fi.cls is not None:
                owner, m = self.repo.find_method(fi.cls, f.attr)
                if m is not None and (owner.name, f.attr) in self.funcs:
                    return (owner.name, f.attr)
            if v in self.mod.classes:
                c = self.mod.classes[v]
                owner, m = self.repo.find_method(c, f.attr)
                if m is not None and (owner.name, f.attr) in self.funcs:
                    return (owner.name, f.attr)
        return None

    # ---------------------------------------------------------------- node expressions
    def node_path(self, fi, expr, depth=0):
        """set of (param, path) the expression may denote, or empty set if it is not a node expression"""
        out = set()
        if depth > 10:
            return out
        if isinstance(expr, ast.Name):
            if expr.id in fi.node_params:
                # a parameter re-bound locally keeps its meaning unless assigned
                defs = fi.rd.defs(expr.id, expr)
                if all(d.kind == "param" for d in defs):
                    return {(expr.id, ())}
            for d in fi.rd.defs(expr.id, expr):
                if d.kind == "param" and expr.id in fi.node_params:
                    out.add((expr.id, ()))
                elif d.kind == "assign" and d.node is not None:
                    out |= self.node_path(fi, d.node, depth + 1)
                elif d.kind in ("for", "unpack") and d.node is not None:
                    it = d.node
                    # enumerate(N.findall(..)) / list(N) / N.findall(..) / N
                    if isinstance(it, ast.Call) and call_name(it) in ("enumerate", "list", "iter", "reversed", "sorted") and it.args:
                        it = it.args[0]
                    if isinstance(it, ast.Call) and call_name(it) in ("list",) and it.args:
                        it = it.args[0]
                    if isinstance(it, ast.Call) and isinstance(it.func, ast.Attribute) and it.func.attr in ("findall", "iter", "iterfind") and it.args and isinstance(it.args[0], ast.Constant):
                        for p, path in self.node_path(fi, it.func.value, depth + 1):
                            out.add((p, path + (it.args[0].value,)))
                    else:
                        for p, path in self.node_path(fi, it, depth + 1):
                            out.add((p, path + ("*",)))
            # comprehension variables
            comp = self._comp_iter(fi, expr)
            if comp is not None:
                it = comp
                if isinstance(it, ast.Call) and call_name(it) == "list" and it.args:
                    it = it.args[0]
                if isinstance(it, ast.Call) and isinstance(it.func, ast.Attribute) and it.func.attr == "findall" and it.args and isinstance(it.args[0], ast.Constant):
                    for p, path in self.node_path(fi, it.func.value, depth + 1):
                        out.add((p, path + (it.args[0].value,)))
                else:
                    for p, path in self.node_path(fi, it, depth + 1):
                        out.add((p, path + ("*",)))
            return out
        if isinstance(expr, ast.Call) and isinstance(expr.func, ast.Attribute):
            if expr.func.attr == "find" and expr.args and isinstance(expr.args[0], ast.Constant):
                for p, path in self.node_path(fi, expr.func.value, depth + 1):
                    out.add((p, path + (expr.args[0].value,)))
                return out
            if expr.func.attr == "find" and expr.args:
                # dynamic child name: resolved by the caller through dyn_names
                for p, path in self.node_path(fi, expr.func.value, depth + 1):
                    out.add((p, path + (("dyn", norm(expr.args[0])),)))
                return out
            if expr.func.attr == "getroot":
                return self.node_path(fi, expr.func.value, depth + 1)
        if isinstance(expr, ast.Attribute) and expr.attr in ("_tree", "_root"):
            return {("<root>", ())}
        if isinstance(expr, ast.Subscript):
            return self.node_path(fi, expr.value, depth + 1)
        return out

    def _comp_iter(self, fi, name):
        n = fi.mod.parent.get(name)
        while n is not None and n is not fi.fn:
            if isinstance(n, (ast.ListComp, ast.SetComp, ast.GeneratorExp, ast.DictComp)):
                for g in n.generators:
                    if isinstance(g.target, ast.Name) and g.target.id == name.id:
                        return g.iter
            n = fi.mod.parent.get(n)
        return None

    # ---------------------------------------------------------------- lookups of a function
    def lookups(self, key):
        """set of (param, path, kind, name) made by the function and (transitively) its callees."""
        if key in self._lookups:
            return self._lookups[key]
        if key in self._stack:
            return set()
        self._stack.add(key)
        fi = self.funcs[key]
        out = set()
        for n in ast.walk(fi.fn):
            if isinstance(n, ast.Call) and isinstance(n.func, ast.Attribute):
                a = n.func.attr
                if a in ("find", "findall") and n.args:
                    for p, path in self.node_path(fi, n.func.value):
                        nm = n.args[0].value if isinstance(n.args[0], ast.Constant) else ("dyn", norm(n.args[0]))
                        out.add((p, path, "child", nm))
                elif a == "get" and n.args and isinstance(n.args[0], ast.Constant):
                    recv = n.func.value
                    if isinstance(recv, ast.Attribute) and recv.attr == "attrib":
                        recv = recv.value
                    for p, path in self.node_path(fi, recv):
                        out.add((p, path, "attr", n.args[0].value))
            elif isinstance(n, ast.Subscript) and isinstance(n.value, ast.Attribute) and n.value.attr == "attrib" and isinstance(n.slice, ast.Constant):
                for p, path in self.node_path(fi, n.value.value):
                    out.add((p, path, "attr", n.slice.value))
            elif isinstance(n, ast.Attribute) and n.attr in ("text", "tag") and isinstance(n.ctx, ast.Load):
                for p, path in self.node_path(fi, n.value):
                    out.add((p, path, n.attr, None))
            if isinstance(n, ast.Call):
                callee = self.resolve(fi, n)
                if callee is not None:
                    cfi = self.funcs[callee]
                    cparams = [x for x in cfi.params if x not in ("cls", "self")]
                    binds = {}
                    for i, a in enumerate(n.args):
                        if i < len(cparams):
                            binds[cparams[i]] = a
                    for kw in n.keywords:
                        if kw.arg:
                            binds[kw.arg] = kw.value
                    sub = self.lookups(callee)
                    for (cp, cpath, kind, nm) in sub:
                        if cp == "<root>":
                            out.add((cp, cpath, kind, nm))
                        elif cp in binds:
                            for p, path in self.node_path(fi, binds[cp]):
                                out.add((p, path + cpath, kind, nm))
        self._stack.discard(key)
        self._lookups[key] = out
        return out

    # ---------------------------------------------------------------- provenance
    def provenance(self, fi, expr, depth=0, seen=None):
        """lookups (param, path, kind, name) whose value flows into expr"""
        seen = seen if seen is not None else set()
        out = set()
        if depth > 14 or expr is None:
            return out
        if isinstance(expr, ast.Attribute) and expr.attr in ("text", "tag"):
            for p, path in self.node_path(fi, expr.value):
                out.add((p, path, expr.attr, None))
            return out
        if isinstance(expr, ast.Call):
            f = expr.func
            if isinstance(f, ast.Attribute) and f.attr == "get" and expr.args and isinstance(expr.args[0], ast.Constant):
                recv = f.value.value if isinstance(f.value, ast.Attribute) and f.value.attr == "attrib" else f.value
                np_ = self.node_path(fi, recv)
                if np_:
                    for p, path in np_:
                        out.add((p, path, "attr", expr.args[0].value))
                    return out
            if isinstance(f, ast.Attribute) and f.attr in ("find", "findall") and self.node_path(fi, expr):
                # presence of a child used as a value (e.g. `is not None` tests): child lookup itself
                for p, path in self.node_path(fi, expr):
                    out.add((p, path[:-1], "child", path[-1]))
                return out
            callee = self.resolve(fi, expr)
            if callee is not None:
                cfi = self.funcs[callee]
                cparams = [x for x in cfi.params if x not in ("cls", "self")]
                binds = {}
                for i, a in enumerate(expr.args):
                    if i < len(cparams):
                        binds[cparams[i]] = a
                for kw in expr.keywords:
                    if kw.arg:
                        binds[kw.arg] = kw.value
                for (cp, cpath, kind, nm) in self.return_provenance(callee):
                    if cp == "<root>":
                        out.add((cp, cpath, kind, nm))
                    elif cp in binds:
                        np_ = self.node_path(fi, binds[cp])
                        if np_:
                            for p, path in np_:
                                out.add((p, path + cpath, kind, nm))
                        elif (kind, nm) == ("arg", None):
                            out |= self.provenance(fi, binds[cp], depth + 1, seen)
                # non-node arguments flow through as well (e.g. TimeFactory.create_from_xml_node(x.text))
                for a in list(expr.args) + [k.value for k in expr.keywords]:
                    if not self.node_path(fi, a):
                        out |= self.provenance(fi, a, depth + 1, seen)
                return out
            for a in list(expr.args) + [k.value for k in expr.keywords]:
                out |= self.provenance(fi, a, depth + 1, seen)
            if isinstance(f, ast.Attribute) and not self.node_path(fi, f.value):
                out |= self.provenance(fi, f.value, depth + 1, seen)
            return out
        if isinstance(expr, ast.Name):
            if expr.id in fi.params and expr.id not in fi.node_params:
                defs = fi.rd.defs(expr.id, expr)
                if any(d.kind == "param" for d in defs):
                    out.add((expr.id, (), "arg", None))
            key = (id(fi), expr.id, id(fi.rd.stmt_of(expr)))
            if key in seen:
                return out
            seen = seen | {key}
            for d in fi.rd.defs(expr.id, expr):
                if d.kind == "assign" and d.node is not None:
                    out |= self.provenance(fi, d.node, depth + 1, seen)
                    if isinstance(d.node, ast.Constant):
                        # control dependence: constant chosen by a test on looked-up values (enclosing ifs only)
                        n = fi.mod.parent.get(d.stmt)
                        while n is not None and n is not fi.fn:
                            if isinstance(n, ast.If):
                                out |= self.provenance(fi, n.test, depth + 1, seen)
                            n = fi.mod.parent.get(n)
                elif d.kind == "unpack" and d.node is not None and isinstance(d.stmt, ast.Assign) and isinstance(d.node, ast.Call) and self.resolve(fi, d.node) is not None and d.index is not None and len(d.index) == 1:
                    # a, b = helper(node): provenance of the matching element of the returned tuple
                    callee = self.resolve(fi, d.node)
                    cfi = self.funcs[callee]
                    cparams = [x for x in cfi.params if x not in ("cls", "self")]
                    binds = {}
                    for i, a in enumerate(d.node.args):
                        if i < len(cparams):
                            binds[cparams[i]] = a
                    for n in walk_no_nested(cfi.fn):
                        if isinstance(n, ast.Return) and isinstance(n.value, ast.Tuple) and d.index[0] < len(n.value.elts):
                            for (cp, cpath, kind, nm) in self.provenance(cfi, n.value.elts[d.index[0]]):
                                if cp in binds:
                                    for p, path in self.node_path(fi, binds[cp]):
                                        out.add((p, path + cpath, kind, nm))
                        elif isinstance(n, ast.Return) and n.value is not None and not isinstance(n.value, ast.Tuple):
                            out |= self.provenance(fi, d.node, depth + 1, seen)
                elif d.kind in ("for", "unpack") and d.node is not None:
                    np_ = self.node_path(fi, expr)
                    if not np_:
                        out |= self.provenance(fi, d.node, depth + 1, seen)
                elif d.kind == "aug" and d.node is not None:
                    out |= self.provenance(fi, d.node, depth + 1, seen)
            # accumulation into containers: x.append(v) / x.add(v) / x[k] = v / x[k].append(v)
            for n in walk_no_nested(fi.fn):
                if isinstance(n, ast.Call) and isinstance(n.func, ast.Attribute) and n.func.attr in ("append", "add", "extend", "update", "insert"):
                    base = n.func.value
                    while isinstance(base, ast.Subscript):
                        base = base.value
                    if isinstance(base, ast.Name) and base.id == expr.id:
                        for a in n.args:
                            out |= self.provenance(fi, a, depth + 1, seen)
                elif isinstance(n, ast.Assign) and isinstance(n.targets[0], ast.Subscript):
                    base = n.targets[0].value
                    if isinstance(base, ast.Name) and base.id == expr.id:
                        out |= self.provenance(fi, n.value, depth + 1, seen)
            return out
        if isinstance(expr, ast.Constant):
            return out
        for c in ast.iter_child_nodes(expr):
            if isinstance(c, ast.expr):
                out |= self.provenance(fi, c, depth + 1, seen)
            elif isinstance(c, ast.comprehension):
                out |= self.provenance(fi, c.iter, depth + 1, seen)
        return out

    def return_provenance(self, key):
        if key in self._retprov:
            return self._retprov[key]
        if ("ret", key) in self._stack:
            return set()
        self._stack.add(("ret", key))
        fi = self.funcs[key]
        out = set()
        for n in walk_no_nested(fi.fn):
            if isinstance(n, ast.Return) and n.value is not None:
                out |= self.provenance(fi, n.value)
                if isinstance(n.value, ast.Constant):
                    # constant result selected by a test on looked-up values
                    m = fi.mod.parent.get(n)
                    while m is not None and m is not fi.fn:
                        if isinstance(m, ast.If):
                            out |= self.provenance(fi, m.test)
                        m = fi.mod.parent.get(m)
        self._stack.discard(("ret", key))
        self._retprov[key] = out
        return out

    def ctor_calls(self, key):
        """[(class name, {kw or position: expr}, call node)] for constructor calls of repository
        (non-factory) classes in the function."""
        fi = self.funcs[key]
        out = []
        for n in walk_no_nested(fi.fn):
            if isinstance(n, ast.Call) and isinstance(n.func, ast.Name) and n.func.id not in self.mod.classes:
                c = self.repo.resolve_class(self.mod, n.func.id)
                if c is not None and not c.is_enum:
                    out.append((c, n))
        return out

"""Constructor model of a class: which private attributes exist after `__init__`, which
constructor parameters feed them, and whether a path through `__init__` (following
property setters and parent constructors, inlined) leaves `None` in them.

"Nullable" here is *constructor-nullable*: some `__init__` path stores `None`
(a default `None` stored unmodified).  Annotations alone never make an attribute
nullable."""
import ast
import copy

from .core import AnalysisError, dominating_guards, guard_says_not_none, norm, attr_chain
from .dataflow import ReachingDefs, Provenance

NODEFAULT = object()


class InlineBlock(ast.stmt):
    """Synthetic statement: an inlined callee body; `return` inside leaves the block only."""

    _fields = ("body",)

    def __init__(self, body, origin=""):
        super().__init__()
        self.body = body
        self.origin = origin
        self.lineno = body[0].lineno if body else 0
        self.col_offset = 0


class _Renamer(ast.NodeTransformer):
    def __init__(self, mapping):
        self.mapping = mapping

    def visit_Name(self, node):
        if node.id in self.mapping:
            return ast.copy_location(ast.Name(id=self.mapping[node.id], ctx=node.ctx), node)
        return node


class ParentMap:
    def __init__(self, tree):
        self.parent = {}
        for n in ast.walk(tree):
            for c in ast.iter_child_nodes(n):
                self.parent[c] = n


class InlineRD(ReachingDefs):
    """ReachingDefs that understands InlineBlock (return leaves the block)."""

    def _stmt(self, s, env):
        if isinstance(s, InlineBlock):
            self.at[id(s)] = env
            saved = self.exit_envs
            self.exit_envs = []
            out = self._block(s.body, env)
            rets = self.exit_envs
            self.exit_envs = saved
            for r in rets:
                out = r if out is None else self._m(out, r)
            return out
        return super()._stmt(s, env)

    @staticmethod
    def _m(a, b):
        from .dataflow import _merge

        return _merge(a, b)


def params_of(fn, skip_self=True):
    """Ordered list of (name, annotation text or None, default node or NODEFAULT)."""
    a = fn.args
    pos = list(a.posonlyargs) + list(a.args)
    defaults = [NODEFAULT] * (len(pos) - len(a.defaults)) + list(a.defaults)
    out = []
    for arg, d in zip(pos, defaults):
        out.append((arg.arg, norm(arg.annotation) if arg.annotation is not None else None, d))
    for arg, d in zip(a.kwonlyargs, a.kw_defaults):
        out.append((arg.arg, norm(arg.annotation) if arg.annotation is not None else None, NODEFAULT if d is None else d))
    if skip_self and out and out[0][0] in ("self", "cls"):
        out = out[1:]
    return out


class CtorModel:
    """Inlined constructor of a class."""

    MAX_DEPTH = 5

    def __init__(self, repo, cls):
        self.repo = repo
        self.cls = cls
        self.counter = 0
        self.params = []  # (name, ann, default)
        self.attr_defs = {}  # attr -> list of Def reaching the end of the constructor
        self.kwargs_ctor = False
        owner, init = repo.find_method(cls, "__init__")
        self.init_owner = owner
        self.fields = {}
        if init is None:
            if any(c.is_dataclass for c in repo.mro(cls)):
                self._dataclass()
                return
            self.fn = None
            return
        self.params = params_of(init)
        self.kwargs_ctor = init.args.kwarg is not None and not self.params
        fn = copy.deepcopy(init)
        fn.body = self._inline_body(fn.body, owner, 0)
        ast.fix_missing_locations(fn)
        self.fn = fn
        self.pm = ParentMap(fn)
        self.rd = InlineRD(fn)
        self.prov = Provenance(fn, self.rd)
        final = None
        from .dataflow import _merge

        for e in self.rd.exit_envs:
            final = _merge(final, e)
        final = final or {}
        for name, defs in final.items():
            if name.startswith("self.") and name.count(".") == 1:
                self.attr_defs[name[5:]] = list(defs)
        # dataclass parents with explicit __init__ are rare; dataclass fields of bases are added as plain fields
        if any(c.is_dataclass for c in repo.mro(cls)) and owner is not cls:
            pass

    # ---- dataclass without explicit __init__
    def _dataclass(self):
        self.fn = None
        for name, (ann, default) in self.repo.dataclass_fields(self.cls).items():
            self.params.append((name, norm(ann), NODEFAULT if default is None else default))
            self.fields[name] = (norm(ann), default)

    # ---- inlining
    def _fresh(self, base):
        self.counter += 1
        return "__inl%d_%s" % (self.counter, base)

    def _inline_body(self, body, owner, depth):
        out = []
        for st in body:
            out.extend(self._inline_stmt(st, owner, depth))
        return out

    def _inline_stmt(self, st, owner, depth):
        # recurse into compound statements first
        for field in ("body", "orelse", "finalbody"):
            lst = getattr(st, field, None)
            if isinstance(lst, list) and lst and isinstance(lst[0], ast.stmt):
                setattr(st, field, self._inline_body(lst, owner, depth))
        if isinstance(st, ast.Try):
            for h in st.handlers:
                h.body = self._inline_body(h.body, owner, depth)
        if depth >= self.MAX_DEPTH:
            return [st]
        # self.<prop> = E  where prop has a setter
        target = value = None
        if isinstance(st, ast.Assign) and len(st.targets) == 1:
            target, value = st.targets[0], st.value
        elif isinstance(st, ast.AnnAssign) and st.value is not None:
            target, value = st.target, st.value
        if target is not None and isinstance(target, ast.Attribute) and isinstance(target.value, ast.Name) and target.value.id == "self":
            pc, prop = self.repo.find_prop(self.cls, target.attr)
            if prop is not None and "set" in prop:
                setter = prop["set"]
                ps = params_of(setter)
                if len(ps) >= 1:
                    tmp = self._fresh(ps[0][0])
                    pre = ast.copy_location(ast.Assign(targets=[ast.Name(id=tmp, ctx=ast.Store())], value=value), st)
                    body = [_Renamer({ps[0][0]: tmp}).visit(copy.deepcopy(b)) for b in setter.body]
                    body = self._inline_body(body, pc, depth + 1)
                    blk = InlineBlock(body, origin="%s.%s[set]" % (pc.name, target.attr))
                    ast.copy_location(blk, st)
                    return [pre, blk]
            return [st]
        # Parent.__init__(self, ...) / super().__init__(...) / super(X, self).__init__(...)
        if isinstance(st, ast.Expr) and isinstance(st.value, ast.Call) and isinstance(st.value.func, ast.Attribute) and st.value.func.attr == "__init__":
            call = st.value
            recv = call.func.value
            parent_cls = None
            args = list(call.args)
            if isinstance(recv, ast.Call) and isinstance(recv.func, ast.Name) and recv.func.id == "super":
                mro = self.repo.mro(owner)
                for c in mro[1:]:
                    if "__init__" in c.methods:
                        parent_cls = c
                        break
            else:
                parent_cls = self.repo.resolve_class(owner.mod, norm(recv))
                if parent_cls is not None and args:
                    args = args[1:]  # explicit self
            if parent_cls is not None and "__init__" in parent_cls.methods:
                pinit = parent_cls.methods["__init__"]
                ps = params_of(pinit)
                mapping, pre = {}, []
                kw = {k.arg: k.value for k in call.keywords if k.arg}
                for i, (pn, _ann, dflt) in enumerate(ps):
                    if i < len(args):
                        v = args[i]
                    elif pn in kw:
                        v = kw[pn]
                    elif dflt is not NODEFAULT:
                        v = copy.deepcopy(dflt)
                    else:
                        v = ast.Name(id="__unknown__", ctx=ast.Load())
                    tmp = self._fresh(pn)
                    mapping[pn] = tmp
                    pre.append(ast.copy_location(ast.Assign(targets=[ast.Name(id=tmp, ctx=ast.Store())], value=v), st))
                body = [_Renamer(mapping).visit(copy.deepcopy(b)) for b in pinit.body]
                body = self._inline_body(body, parent_cls, depth + 1)
                blk = InlineBlock(body, origin="%s.__init__" % parent_cls.name)
                ast.copy_location(blk, st)
                return pre + [blk]
        return [st]

    # ---- queries
    def attributes(self):
        if self.fn is None:
            return list(self.fields)
        return list(self.attr_defs)

    def param_default_none(self, name):
        for n, _a, d in self.params:
            if n == name:
                return d is not NODEFAULT and isinstance(d, ast.Constant) and d.value is None
        return False

    def _may_none(self, expr, guards, at, seen):
        if isinstance(expr, ast.Constant):
            return expr.value is None
        if isinstance(expr, ast.IfExp):
            gt = list(guards) + _flat(expr.test, True)
            gf = list(guards) + _flat(expr.test, False)
            return self._may_none(expr.body, gt, at, seen) or self._may_none(expr.orelse, gf, at, seen)
        if isinstance(expr, ast.Name):
            if guard_says_not_none(guards, expr.id):
                return False
            ds = self.rd.defs(expr.id, at)
            if not ds:
                return False
            for d in ds:
                if id(d) in seen:
                    continue
                if d.kind == "param":
                    if self.param_default_none(d.name):
                        return True
                elif d.kind == "assign":
                    g2 = dominating_guards(self.pm, d.stmt)
                    if self._may_none(d.node, g2, d.stmt, seen | {id(d)}):
                        return True
            return False
        return False

    def nullable(self, attr):
        """True if some constructor path leaves None in self.<attr>."""
        if self.fn is None:
            if attr in self.fields:
                d = self.fields[attr][1]
                return isinstance(d, ast.Constant) and d.value is None
            return False
        for d in self.attr_defs.get(attr, []):
            if d.kind != "assign":
                continue
            guards = dominating_guards(self.pm, d.stmt)
            if self._may_none(d.node, guards, d.stmt, frozenset()):
                return True
        return False

    def feeding_params(self, attr):
        """Constructor parameters whose value can reach self.<attr>."""
        if self.fn is None:
            return {attr} if attr in self.fields else set()
        out = set()
        for d in self.attr_defs.get(attr, []):
            if d.kind in ("assign", "aug", "unpack") and d.node is not None:
                out |= {r for r in self.prov.roots(d.node, d.stmt) if not r.startswith("G:")}
        out.discard("self")
        return out

    def param_attrs(self):
        """param name -> set of attributes it feeds."""
        out = {}
        for a in self.attributes():
            for p in self.feeding_params(a):
                out.setdefault(p, set()).add(a)
        return out


def _flat(t, pol):
    out = []

    def rec(t, pol):
        if isinstance(t, ast.BoolOp) and isinstance(t.op, ast.And) and pol:
            for v in t.values:
                rec(v, True)
        elif isinstance(t, ast.BoolOp) and isinstance(t.op, ast.Or) and not pol:
            for v in t.values:
                rec(v, False)
        elif isinstance(t, ast.UnaryOp) and isinstance(t.op, ast.Not):
            rec(t.operand, not pol)
        else:
            out.append((t, pol))

    rec(t, pol)
    return out


_cache = {}


def ctor_model(repo, cls):
    key = (id(repo), id(cls))
    if key not in _cache:
        _cache[key] = CtorModel(repo, cls)
    return _cache[key]


# ---------------------------------------------------------------- declared container kinds

UNHASHABLE = ("List", "list", "Set", "set", "Dict", "dict", "np.ndarray", "ndarray", "defaultdict", "ItemsView")


def ann_container_kinds(ann_text):
    """Top-level container kinds a declared type admits: subset of {'list','set','dict','ndarray','tuple'}."""
    if not ann_text:
        return set()
    out = set()
    try:
        node = ast.parse(ann_text.strip("'\""), mode="eval").body
    except SyntaxError:
        return out

    def rec(n):
        if isinstance(n, ast.Subscript):
            head = norm(n.value).split(".")[-1]
            if head in ("Union", "Optional"):
                elts = n.slice.elts if isinstance(n.slice, ast.Tuple) else [n.slice]
                for e in elts:
                    rec(e)
                return
            kind(head)
            return
        if isinstance(n, ast.BinOp) and isinstance(n.op, ast.BitOr):
            rec(n.left)
            rec(n.right)
            return
        if isinstance(n, (ast.Name, ast.Attribute)):
            kind(norm(n).split(".")[-1])

    def kind(head):
        h = head.lower()
        if h in ("list", "sequence", "mutablesequence"):
            out.add("list")
        elif h in ("set", "mutableset"):
            out.add("set")
        elif h in ("dict", "defaultdict", "mapping", "mutablemapping"):
            out.add("dict")
        elif h == "ndarray":
            out.add("ndarray")
        elif h == "tuple":
            out.add("tuple")
        elif h == "frozenset":
            out.add("frozenset")

    rec(node)
    return out


def ann_admits_none(ann_text):
    if not ann_text:
        return False
    return "None" in ann_text or "Optional" in ann_text

"""Normal form: table-driven code is unrolled.

`with self._cm(..):` over a generator-based context manager of the same class / module that binds no locals is replaced
by the manager's statements before its `yield`, the block, and its statements after (or `try: block finally: ..`).
A loop over a *constant table* (a tuple / list / dict literal written in place, bound once to a local, a class
attribute or a module-level name, or returned by a parameterless helper whose body is `return <literal>`), whose rows
are made of constants, names and attribute chains, is replaced by its body once per row with the loop variables
substituted; `getattr(x, "name")` / `setattr(x, "name", v)` with a constant name become attribute access / assignment;
a body of the form `if c: ...; break` becomes an if / elif chain.  The rewrite is semantics preserving (the table is
evaluated to the same rows in the same order; rows hold no calls) and is applied when a module is loaded, so every
checker sees `for attr, enum in TABLE: setattr(msg, attr, ...)` and the hand-unrolled statements as the same program.
Positions are copied from the original statements, so reports still point into the real file.
"""
import ast
import copy

MAX_ROWS = 64
# record classes of the module being normalised: typing.NamedTuple classes, name -> field names in order
_RECORDS = {}


def _record_fields(e):
    """{field: value expr} if e constructs a record (NamedTuple class of the module) from simple values, else None"""
    if isinstance(e, ast.Call) and isinstance(e.func, ast.Name) and e.func.id in _RECORDS and not any(isinstance(a, ast.Starred) for a in e.args) and all(k.arg for k in e.keywords):
        names, defaults = _RECORDS[e.func.id]
        if len(e.args) > len(names):
            return None
        out = dict(zip(names, e.args))
        for k in e.keywords:
            if k.arg not in names or k.arg in out:
                return None
            out[k.arg] = k.value
        for n in names:
            if n not in out:
                if n not in defaults:
                    return None
                out[n] = defaults[n]
        return out if all(_simple(v) for v in out.values()) else None
    return None


def _simple(e):
    if isinstance(e, (ast.Constant, ast.Name)):
        return True
    if isinstance(e, ast.Call):
        return _record_fields(e) is not None
    if isinstance(e, ast.Attribute):
        return _simple(e.value)
    if isinstance(e, (ast.Tuple, ast.List)):
        return all(_simple(x) for x in e.elts)
    if isinstance(e, ast.UnaryOp) and isinstance(e.op, ast.USub):
        return _simple(e.operand)
    if isinstance(e, ast.Lambda):
        a = e.args
        return not (a.defaults or a.kw_defaults or a.vararg or a.kwarg or a.kwonlyargs or a.posonlyargs)
    return False


def _literal_rows(e):
    """rows of a literal table, or None"""
    if isinstance(e, (ast.Tuple, ast.List)) and len(e.elts) <= MAX_ROWS and all(_simple(x) for x in e.elts):
        return list(e.elts)
    return None


def _dict_pairs(e):
    if isinstance(e, ast.Dict) and len(e.keys) <= MAX_ROWS and all(k is not None and _simple(k) and _simple(v) for k, v in zip(e.keys, e.values)):
        return e
    return None


def _single_return(fn):
    body = [s for s in fn.body if not (isinstance(s, ast.Expr) and isinstance(s.value, ast.Constant))]
    a = fn.args
    n_params = len(a.args) + len(a.posonlyargs) + len(a.kwonlyargs)
    decos = {ast.unparse(d) for d in fn.decorator_list}
    implicit = 0 if "staticmethod" in decos else 1
    if len(body) == 1 and isinstance(body[0], ast.Return) and body[0].value is not None and a.vararg is None and a.kwarg is None:
        return body[0].value, n_params, implicit
    return None


class _Subst(ast.NodeTransformer):
    def __init__(self, mapping):
        self.mapping = mapping

    def visit_Name(self, node):
        if isinstance(node.ctx, ast.Load) and node.id in self.mapping:
            return ast.copy_location(copy.deepcopy(self.mapping[node.id]), node)
        return node


class _NoneFold(ast.NodeTransformer):
    """after a name has been replaced by a class / function: `<that> is None` is false, `<that> is not None` true"""

    def __init__(self, val):
        self.text = ast.unparse(val)

    def visit_If(self, node):
        self.generic_visit(node)
        t = node.test
        if isinstance(t, ast.Compare) and len(t.ops) == 1 and isinstance(t.ops[0], (ast.Is, ast.IsNot)) and isinstance(t.comparators[0], ast.Constant) and t.comparators[0].value is None and ast.unparse(t.left) == self.text:
            keep = node.orelse if isinstance(t.ops[0], ast.Is) else node.body
            return keep or None
        return node


class _AttrOps(ast.NodeTransformer):
    """operator.eq(*(a, b)) -> a == b after a row has been substituted"""

    OPS = {"eq": ast.Eq, "ne": ast.NotEq, "is_": ast.Is, "is_not": ast.IsNot}

    def visit_Call(self, node):
        self.generic_visit(node)
        nm = ast.unparse(node.func)
        if nm.startswith("operator.") and nm.split(".", 1)[1] in self.OPS and not node.keywords:
            args = node.args
            if len(args) == 1 and isinstance(args[0], ast.Starred) and isinstance(args[0].value, (ast.Tuple, ast.List)) and len(args[0].value.elts) == 2:
                args = args[0].value.elts
            if len(args) == 2 and not any(isinstance(a, ast.Starred) for a in args):
                return ast.copy_location(ast.Compare(left=args[0], ops=[self.OPS[nm.split(".", 1)[1]]()], comparators=[args[1]]), node)
        return node


class _TrueAnd(ast.NodeTransformer):
    """True and x -> x ; flattens nested conjunctions"""

    def visit_BoolOp(self, node):
        self.generic_visit(node)
        if isinstance(node.op, ast.And):
            vals = []
            for v in node.values:
                if isinstance(v, ast.Constant) and v.value is True:
                    continue
                if isinstance(v, ast.BoolOp) and isinstance(v.op, ast.And):
                    vals += v.values
                else:
                    vals.append(v)
            if not vals:
                return ast.copy_location(ast.Constant(value=True), node)
            if len(vals) == 1:
                return vals[0]
            node.values = vals
        return node


class _Beta(ast.NodeTransformer):
    """(lambda a, b: body)(x, y) -> body[a := x, b := y]  when every argument is simple or used at most once"""

    def visit_Call(self, node):
        self.generic_visit(node)
        f = node.func
        if isinstance(f, ast.Lambda) and not node.keywords and len(node.args) == len(f.args.args) and not any(isinstance(a, ast.Starred) for a in node.args):
            names = [a.arg for a in f.args.args]
            uses = {n: 0 for n in names}
            for x in ast.walk(f.body):
                if isinstance(x, ast.Name) and x.id in uses:
                    uses[x.id] += 1
                if isinstance(x, ast.Lambda) and x is not f:
                    return node
            if all(_simple(a) or uses[n] <= 1 for n, a in zip(names, node.args)):
                return ast.copy_location(_Subst(dict(zip(names, node.args))).visit(copy.deepcopy(f.body)), node)
        return node


class _FoldAttr(ast.NodeTransformer):
    """getattr(x, "n") -> x.n ; setattr(x, "n", v) statement -> x.n = v ; Record(a=1, b=2).a -> 1"""

    def visit_Attribute(self, node):
        self.generic_visit(node)
        if isinstance(node.ctx, ast.Load):
            f = _record_fields(node.value)
            if f is not None and node.attr in f:
                return ast.copy_location(copy.deepcopy(f[node.attr]), node)
        return node

    def visit_Subscript(self, node):
        self.generic_visit(node)
        if isinstance(node.ctx, ast.Load) and isinstance(node.slice, ast.Constant) and isinstance(node.slice.value, int):
            f = _record_fields(node.value)
            if f is not None and -len(f) <= node.slice.value < len(f):
                return ast.copy_location(copy.deepcopy(list(f.values())[node.slice.value]), node)
        return node

    def visit_BinOp(self, node):
        self.generic_visit(node)
        if isinstance(node.op, ast.Add) and isinstance(node.left, ast.Constant) and isinstance(node.right, ast.Constant) and isinstance(node.left.value, str) and isinstance(node.right.value, str):
            return ast.copy_location(ast.Constant(value=node.left.value + node.right.value), node)  # "_" + "name"
        return node

    def visit_Call(self, node):
        self.generic_visit(node)
        if isinstance(node.func, ast.Name) and node.func.id == "getattr" and len(node.args) == 2 and not node.keywords:
            k = node.args[1]
            if isinstance(k, ast.Constant) and isinstance(k.value, str) and k.value.isidentifier():
                return ast.copy_location(ast.Attribute(value=node.args[0], attr=k.value, ctx=ast.Load()), node)
        return node

    def visit_Expr(self, node):
        self.generic_visit(node)
        c = node.value
        if isinstance(c, ast.Call) and isinstance(c.func, ast.Name) and c.func.id == "setattr" and len(c.args) == 3 and not c.keywords:
            k = c.args[1]
            if isinstance(k, ast.Constant) and isinstance(k.value, str) and k.value.isidentifier():
                tgt = ast.copy_location(ast.Attribute(value=c.args[0], attr=k.value, ctx=ast.Store()), c)
                return ast.copy_location(ast.Assign(targets=[tgt], value=c.args[2], type_comment=None), node)
        return node


def _stores(stmts):
    out = set()
    for s in stmts:
        for n in ast.walk(s):
            if isinstance(n, ast.Name) and isinstance(n.ctx, (ast.Store, ast.Del)):
                out.add(n.id)
            elif isinstance(n, (ast.FunctionDef, ast.Lambda, ast.ClassDef)):
                # nested scopes that rebind the name are rare; refuse to unroll if the name is a parameter there
                args = n.args if not isinstance(n, ast.ClassDef) else None
                if args is not None:
                    out |= {a.arg for a in args.args + args.kwonlyargs + args.posonlyargs}
    return out


def _has_loop_jump(stmts, kinds):
    """break/continue belonging to *this* loop (not to nested loops)"""

    def rec(ss):
        for s in ss:
            if isinstance(s, kinds):
                return True
            if isinstance(s, (ast.For, ast.While, ast.FunctionDef, ast.ClassDef, ast.AsyncFor)):
                if isinstance(s, (ast.For, ast.While)) and rec(s.orelse):
                    return True
                continue
            for f in ("body", "orelse", "finalbody", "handlers"):
                sub = getattr(s, f, None)
                if sub:
                    if f == "handlers":
                        for h in sub:
                            if rec(h.body):
                                return True
                    elif rec(sub):
                        return True
        return False

    return rec(stmts)


def _dead_store(st, loaded):
    """`name = <display of names, attributes, constants and lambdas>` where the name is never read (what is left of a
    table once the loop over it is unrolled): evaluating it has no effect"""
    if not (isinstance(st, ast.Assign) and len(st.targets) == 1 and isinstance(st.targets[0], ast.Name) and st.targets[0].id not in loaded):
        return False

    def inert(e):
        if isinstance(e, (ast.Tuple, ast.List)):
            return all(inert(x) for x in e.elts)
        if isinstance(e, ast.Lambda):
            return True
        return isinstance(e, (ast.Name, ast.Constant)) or (isinstance(e, ast.Attribute) and isinstance(e.value, ast.Name))

    return isinstance(st.value, (ast.Tuple, ast.List)) and inert(st.value)


class Unroller(ast.NodeTransformer):
    def __init__(self, tree):
        self.mod_consts, self.mod_funcs, self.classes = {}, {}, {}
        _RECORDS.clear()
        for st in tree.body:
            if isinstance(st, ast.ClassDef) and any(ast.unparse(b).split(".")[-1] == "NamedTuple" for b in st.bases) and "__new__" not in {x.name for x in st.body if isinstance(x, ast.FunctionDef)}:
                flds = [x for x in st.body if isinstance(x, ast.AnnAssign) and isinstance(x.target, ast.Name)]
                _RECORDS[st.name] = ([x.target.id for x in flds], {x.target.id: x.value for x in flds if x.value is not None and isinstance(x.value, ast.Constant)})
        for st in tree.body:
            # N = namedtuple("N", ["a", "b"]) / "a b" / "a, b" at module level is a record class as well
            if isinstance(st, ast.Assign) and len(st.targets) == 1 and isinstance(st.targets[0], ast.Name) and isinstance(st.value, ast.Call) and ast.unparse(st.value.func) in ("namedtuple", "collections.namedtuple") and len(st.value.args) == 2 and not st.value.keywords:
                spec = st.value.args[1]
                names = None
                if isinstance(spec, (ast.List, ast.Tuple)) and all(isinstance(x, ast.Constant) and isinstance(x.value, str) for x in spec.elts):
                    names = [x.value for x in spec.elts]
                elif isinstance(spec, ast.Constant) and isinstance(spec.value, str):
                    names = spec.value.replace(",", " ").split()
                if names and all(n.isidentifier() for n in names):
                    _RECORDS[st.targets[0].id] = (names, {})
        for st in tree.body:
            self._note(st, self.mod_consts, self.mod_funcs)
            if isinstance(st, ast.ClassDef):
                consts, funcs = {}, {}
                for s2 in st.body:
                    self._note(s2, consts, funcs)
                self.classes[st.name] = (consts, funcs)
        self.cls = []
        self.fn = []
        self.fn_nodes = []
        self.count = 0
        # names / attribute names whose object is mutated somewhere in the module: never constant tables
        self.mutated = set()
        MUT = {"append", "extend", "insert", "pop", "remove", "clear", "update", "setdefault", "sort", "reverse", "add", "discard", "popitem"}
        for n in ast.walk(tree):
            tgt = None
            if isinstance(n, ast.Call) and isinstance(n.func, ast.Attribute) and n.func.attr in MUT:
                tgt = n.func.value
            elif isinstance(n, (ast.Subscript, ast.Attribute)) and isinstance(n.ctx, (ast.Store, ast.Del)):
                tgt = n.value if isinstance(n, ast.Subscript) else None
            elif isinstance(n, ast.AugAssign):
                tgt = n.target
            if tgt is not None:
                if isinstance(tgt, ast.Name):
                    self.mutated.add(tgt.id)
                elif isinstance(tgt, ast.Attribute):
                    self.mutated.add(tgt.attr)

    @staticmethod
    def _note(st, consts, funcs):
        if isinstance(st, ast.Assign) and len(st.targets) == 1 and isinstance(st.targets[0], ast.Name):
            if st.targets[0].id in consts:
                consts[st.targets[0].id] = None  # bound more than once: not a constant
            else:
                consts[st.targets[0].id] = st.value
        elif isinstance(st, ast.AnnAssign) and isinstance(st.target, ast.Name) and st.value is not None:
            consts[st.target.id] = None if st.target.id in consts else st.value
        elif isinstance(st, ast.FunctionDef):
            funcs[st.name] = st

    # ---- scopes
    def visit_ClassDef(self, node):
        self.cls.append(node.name)
        self.generic_visit(node)
        self.cls.pop()
        return node

    def visit_FunctionDef(self, node):
        local = {}
        counts = {}
        for n in ast.walk(node):
            if isinstance(n, ast.Name) and isinstance(n.ctx, ast.Store):
                counts[n.id] = counts.get(n.id, 0) + 1
        for st in node.body:
            if isinstance(st, ast.Assign) and len(st.targets) == 1 and isinstance(st.targets[0], ast.Name) and counts.get(st.targets[0].id) == 1:
                local[st.targets[0].id] = st.value
        params = {a.arg for a in node.args.args + node.args.kwonlyargs + node.args.posonlyargs}
        self.fn.append((local, params, counts))
        self.fn_nodes.append(node)
        self.generic_visit(node)
        node.body = self._dispatch_split(node.body, counts)
        self._fold_local_dicts(node, counts)
        self._fold_local_records(node, counts)
        self.fn_nodes.pop()
        self.fn.pop()
        return node

    def _fold_local_records(self, fn, counts):
        """r = Record(a=e1, b=e2) bound once at the top level of the function from simple values and only ever read as
        r.a / r.b: every r.a is e1 (nothing e1 reads may be assigned after the record is made)."""
        for i, st in enumerate(list(fn.body)):
            if not (isinstance(st, ast.Assign) and len(st.targets) == 1 and isinstance(st.targets[0], ast.Name) and counts.get(st.targets[0].id) == 1):
                continue
            f = _record_fields(st.value)
            if f is None:
                continue
            name = st.targets[0].id
            uses = [n for n in ast.walk(fn) if isinstance(n, ast.Name) and n.id == name and isinstance(n.ctx, ast.Load)]
            attrs = [n for n in ast.walk(fn) if isinstance(n, ast.Attribute) and isinstance(n.value, ast.Name) and n.value.id == name and isinstance(n.ctx, ast.Load) and n.attr in f]
            if not uses or len(uses) != len(attrs):
                continue
            read = {n.id for v in f.values() for n in ast.walk(v) if isinstance(n, ast.Name)}
            later_stores = {n.id for s2 in fn.body[i + 1 :] for n in ast.walk(s2) if isinstance(n, ast.Name) and isinstance(n.ctx, (ast.Store, ast.Del))}
            if read & later_stores:
                continue

            class _Sub(ast.NodeTransformer):
                def visit_Attribute(self_, n):
                    self_.generic_visit(n)
                    if isinstance(n.value, ast.Name) and n.value.id == name and isinstance(n.ctx, ast.Load) and n.attr in f:
                        return ast.copy_location(copy.deepcopy(f[n.attr]), n)
                    return n

            fn.body = [s2 for s2 in fn.body if s2 is not st]
            fn.body = [_Sub().visit(s2) for s2 in fn.body] or [ast.copy_location(ast.Pass(), st)]
            self.count += 1

    def _fold_local_dicts(self, fn, counts):
        """d = {"a": e1, "b": e2} bound once at the top level of the function, only ever read as d["a"] / d["b"] with
        constant keys, and e1, e2 free of calls that change something (attribute reads, HasField / getattr tests,
        conditional expressions): every d["a"] is e1.  The dict itself is dropped."""
        for i, st in enumerate(list(fn.body)):
            if not (isinstance(st, ast.Assign) and len(st.targets) == 1 and isinstance(st.targets[0], ast.Name) and counts.get(st.targets[0].id) == 1 and isinstance(st.value, ast.Dict)):
                continue
            name, d = st.targets[0].id, st.value
            if not d.keys or not all(isinstance(k, ast.Constant) for k in d.keys):
                continue

            def pure(e):
                for n in ast.walk(e):
                    if isinstance(n, ast.Call):
                        f = n.func
                        if not ((isinstance(f, ast.Attribute) and f.attr in ("HasField", "get")) or (isinstance(f, ast.Name) and f.id in ("getattr", "hasattr", "len", "isinstance"))):
                            return False
                    if isinstance(n, (ast.Lambda, ast.NamedExpr, ast.Yield, ast.Await)):
                        return False
                return True

            if not all(pure(v) for v in d.values):
                continue
            uses = [n for n in ast.walk(fn) if isinstance(n, ast.Name) and n.id == name and isinstance(n.ctx, ast.Load)]
            subs = [n for n in ast.walk(fn) if isinstance(n, ast.Subscript) and isinstance(n.value, ast.Name) and n.value.id == name and isinstance(n.ctx, ast.Load) and isinstance(n.slice, ast.Constant)]
            table = {k.value: v for k, v in zip(d.keys, d.values)}
            if len(uses) != len(subs) or not subs or any(x.slice.value not in table for x in subs):
                continue
            # the values must still mean the same where they are used: nothing they read is assigned after the dict
            read = {n.id for v in d.values for n in ast.walk(v) if isinstance(n, ast.Name)}
            later_stores = {n.id for s2 in fn.body[i + 1 :] for n in ast.walk(s2) if isinstance(n, ast.Name) and isinstance(n.ctx, (ast.Store, ast.Del))}
            if read & later_stores:
                continue

            class _Sub(ast.NodeTransformer):
                def visit_Subscript(self_, n):
                    self_.generic_visit(n)
                    if isinstance(n.value, ast.Name) and n.value.id == name and isinstance(n.ctx, ast.Load) and isinstance(n.slice, ast.Constant):
                        return ast.copy_location(copy.deepcopy(table[n.slice.value]), n)
                    return n

            fn.body = [s2 for s2 in fn.body if s2 is not st]
            fn.body = [_Sub().visit(s2) for s2 in fn.body] or [ast.copy_location(ast.Pass(), st)]
            self.count += 1

    def _dispatch_split(self, body, counts):
        """x = TABLE.get(key) (TABLE a constant dict of at most 8 entries whose values are names of classes / functions,
        x bound once) followed by the rest of the block  ->  if key == k1: <rest with v1 for x> elif .. else: x = None;
        <rest>: the look-up in a dispatch table and the chain of comparisons select the same value."""
        for i, st in enumerate(body):
            if not (isinstance(st, ast.Assign) and len(st.targets) == 1 and isinstance(st.targets[0], ast.Name) and counts.get(st.targets[0].id) == 1):
                continue
            v = st.value
            if not (isinstance(v, ast.Call) and isinstance(v.func, ast.Attribute) and v.func.attr == "get" and 1 <= len(v.args) <= 2 and not v.keywords and _simple(v.args[0])):
                continue
            t = self.table(v.func.value)
            if not t or t[0] != "pairs" or not (1 <= len(t[1].keys) <= 8):
                continue
            d = t[1]
            if not all(isinstance(k, ast.Constant) for k in d.keys) or not all(isinstance(x, (ast.Name, ast.Attribute)) for x in d.values):
                continue
            x = st.targets[0].id
            rest = body[i + 1 :]
            if any(isinstance(n, (ast.FunctionDef, ast.Lambda, ast.ClassDef)) for r in rest for n in ast.walk(r)):
                continue
            default = v.args[1] if len(v.args) == 2 else ast.Constant(value=None)
            if not _simple(default):
                continue
            chain = None
            tail_else = [ast.copy_location(ast.Assign(targets=[ast.Name(id=x, ctx=ast.Store())], value=default, type_comment=None), st)] + [copy.deepcopy(r) for r in rest]
            for k, val in reversed(list(zip(d.keys, d.values))):
                sub = [_NoneFold(val).visit(_Subst({x: val}).visit(copy.deepcopy(r))) for r in rest]
                sub = [y for r in sub for y in (r if isinstance(r, list) else [r])] or [ast.copy_location(ast.Pass(), st)]
                test = ast.copy_location(ast.Compare(left=copy.deepcopy(v.args[0]), ops=[ast.Eq()], comparators=[copy.deepcopy(k)]), st)
                chain = ast.copy_location(ast.If(test=test, body=sub, orelse=[chain] if chain is not None else tail_else), st)
            self.count += 1
            return body[:i] + [ast.fix_missing_locations(chain)]
        return body

    # ---- table resolution
    def table(self, e, depth=0):
        """('rows', [row exprs]) | ('pairs', Dict) | None"""
        if depth > 6:
            return None
        rows = _literal_rows(e)
        if rows is not None:
            return ("rows", rows)
        if _dict_pairs(e) is not None:
            return ("pairs", e)
        if isinstance(e, ast.Name) and (e.id in self.mutated or e.id.startswith("__")):
            return None
        if isinstance(e, ast.Attribute) and (e.attr in self.mutated or e.attr.startswith("__")):
            return None
        if isinstance(e, ast.Name):
            if self.fn:
                local, params, counts = self.fn[-1]
                if e.id in local:
                    return self.table(local[e.id], depth + 1)
                if e.id in params or e.id in counts:
                    return None
            v = self.mod_consts.get(e.id)
            return self.table(v, depth + 1) if v is not None else None
        if isinstance(e, ast.Attribute) and isinstance(e.value, ast.Name):
            owner = e.value.id
            cname = self.cls[-1] if owner in ("self", "cls") and self.cls else owner
            if cname in self.classes:
                v = self.classes[cname][0].get(e.attr)
                return self.table(v, depth + 1) if v is not None else None
            return None
        if isinstance(e, ast.Call) and not e.args and not e.keywords:
            f = e.func
            fn = None
            bound = False
            if isinstance(f, ast.Name):
                fn = self.mod_funcs.get(f.id)
            elif isinstance(f, ast.Attribute) and isinstance(f.value, ast.Name):
                owner = f.value.id
                cname = self.cls[-1] if owner in ("self", "cls") and self.cls else owner
                if cname in self.classes:
                    fn = self.classes[cname][1].get(f.attr)
                    bound = True
                elif f.attr.startswith("_") and not f.attr.startswith("__") and self.cls:
                    # <other object>._helper(): a private helper defined by the enclosing class and by no other class of
                    # the module is that helper, whatever the receiver is called; its rows are read on the receiver
                    owners = [cn for cn, (_c, fs) in self.classes.items() if f.attr in fs]
                    if owners == [self.cls[-1]]:
                        h = self.classes[owners[0]][1][f.attr]
                        sr = _single_return(h)
                        if sr is not None and sr[1] == 1 and sr[2] == 1 and h.args.args:
                            t = self.table(sr[0], depth + 1)
                            if t and t[0] == "rows":
                                me = h.args.args[0].arg
                                return ("rows", [_Subst({me: ast.Name(id=owner, ctx=ast.Load())}).visit(copy.deepcopy(r)) for r in t[1]])
                    return None
                if f.attr in ("items", "keys", "values") and fn is None:
                    return self._dict_view(f, depth)
            elif isinstance(f, ast.Attribute) and f.attr in ("items", "keys", "values"):
                return self._dict_view(f, depth)
            if fn is not None:
                sr = _single_return(fn)
                if sr is not None:
                    val, n_params, implicit = sr
                    if n_params == (implicit if bound else 0):
                        t = self.table(val, depth + 1)
                        if t is not None and bound and implicit and fn.args.args and isinstance(f, ast.Attribute) and isinstance(f.value, ast.Name):
                            # rows that mention the helper's own receiver are read on the receiver of the call: the
                            # same name for self -> self, type(self) for a class method reached through an instance
                            hp = fn.args.args[0].arg
                            is_cm = "classmethod" in {ast.unparse(d) for d in fn.decorator_list}
                            caller_cm = bool(self.fn_nodes) and "classmethod" in {ast.unparse(d) for d in self.fn_nodes[-1].decorator_list}
                            recv = ast.Name(id=f.value.id, ctx=ast.Load())
                            if f.value.id in self.classes:
                                recv_for_cls = recv
                            elif is_cm and not caller_cm:
                                recv_for_cls = ast.Call(func=ast.Name(id="type", ctx=ast.Load()), args=[recv], keywords=[])
                            else:
                                recv_for_cls = recv
                            target = recv_for_cls if is_cm else recv
                            mentions = any(isinstance(x, ast.Name) and x.id == hp for r in (t[1] if t[0] == "rows" else list(t[1].keys) + list(t[1].values)) for x in ast.walk(r))
                            if mentions and not (isinstance(target, ast.Name) and target.id == hp):
                                if t[0] != "rows":
                                    return None
                                t = ("rows", [_Subst({hp: target}).visit(copy.deepcopy(r)) for r in t[1]])
                        return t
            return None
        if isinstance(e, ast.Call) and isinstance(e.func, ast.Name) and e.func.id in ("tuple", "list") and len(e.args) == 1 and not e.keywords:
            t = self.table(e.args[0], depth + 1)
            return t if t and t[0] == "rows" else None
        if isinstance(e, ast.Subscript) and isinstance(e.slice, ast.Slice):
            # a slice of a constant table with constant bounds
            t = self.table(e.value, depth + 1)

            def const(x):
                if x is None:
                    return True, None
                if isinstance(x, ast.Constant) and isinstance(x.value, int) and not isinstance(x.value, bool):
                    return True, x.value
                if isinstance(x, ast.UnaryOp) and isinstance(x.op, ast.USub) and isinstance(x.operand, ast.Constant) and isinstance(x.operand.value, int):
                    return True, -x.operand.value
                return False, None

            b = [const(e.slice.lower), const(e.slice.upper), const(e.slice.step)]
            if t and t[0] == "rows" and all(ok for ok, _v in b):
                return ("rows", list(t[1])[slice(*[v for _ok, v in b])])
            return None
        if isinstance(e, ast.Call) and isinstance(e.func, ast.Name) and e.func.id == "map" and len(e.args) == 2 and not e.keywords:
            # map(f, TABLE): the rows with f applied (f a name, a lambda, or partial(g, fixed..))
            t = self.table(e.args[1], depth + 1)
            f = e.args[0]
            if t and t[0] == "rows":
                if isinstance(f, ast.Call) and ast.unparse(f.func) in ("partial", "functools.partial") and f.args and not f.keywords and all(_simple(a) for a in f.args):
                    mk = lambda row: ast.Call(func=copy.deepcopy(f.args[0]), args=[copy.deepcopy(a) for a in f.args[1:]] + [row], keywords=[])
                elif isinstance(f, ast.Lambda) or (_simple(f) and not isinstance(f, ast.Constant)):
                    mk = lambda row: _Beta().visit(ast.Call(func=copy.deepcopy(f), args=[row], keywords=[]))
                else:
                    return None
                return ("rows", [_FoldAttr().visit(mk(copy.deepcopy(r))) for r in t[1]])
            return None
        if isinstance(e, ast.Call) and isinstance(e.func, ast.Name) and e.func.id == "enumerate" and len(e.args) == 1 and not e.keywords:
            t = self.table(e.args[0], depth + 1)
            if t and t[0] == "rows":
                return ("rows", [ast.Tuple(elts=[ast.Constant(value=i), r], ctx=ast.Load()) for i, r in enumerate(t[1])])
            return None
        if isinstance(e, ast.Call) and isinstance(e.func, ast.Name) and e.func.id == "zip" and len(e.args) >= 2 and not e.keywords:
            ts = [self.table(a, depth + 1) for a in e.args]
            if all(t and t[0] == "rows" for t in ts):
                n = min(len(t[1]) for t in ts)
                return ("rows", [ast.Tuple(elts=[t[1][i] for t in ts], ctx=ast.Load()) for i in range(n)])
            if any(t and t[0] == "rows" for t in ts) and all((t and t[0] == "rows") or isinstance(a, ast.Name) for t, a in zip(ts, e.args)):
                # a constant table zipped with a sequence held in a local: the table gives the number of rounds, the
                # sequence is read by position
                n = min(len(t[1]) for t in ts if t and t[0] == "rows")
                return ("rows", [ast.Tuple(elts=[t[1][i] if t and t[0] == "rows" else ast.Subscript(value=copy.deepcopy(a), slice=ast.Constant(value=i), ctx=ast.Load()) for t, a in zip(ts, e.args)], ctx=ast.Load()) for i in range(n)])
            return None
        return None

    def _dict_view(self, f, depth):
        t = self.table(f.value, depth + 1)
        if not t or t[0] != "pairs":
            return None
        d = t[1]
        if f.attr == "items":
            return ("rows", [ast.Tuple(elts=[k, v], ctx=ast.Load()) for k, v in zip(d.keys, d.values)])
        return ("rows", list(d.keys if f.attr == "keys" else d.values))

    @staticmethod
    def bind(target, row, out):
        if isinstance(target, ast.Name):
            out[target.id] = row
            return True
        if isinstance(target, (ast.Tuple, ast.List)) and isinstance(row, (ast.Tuple, ast.List)) and len(target.elts) == len(row.elts):
            return all(Unroller.bind(t, r, out) for t, r in zip(target.elts, row.elts))
        return False

    def _simple_generator(self, call):
        """(function def, {parameter: argument}) when `call` invokes a generator helper of this class / module that can
        be inlined: simple arguments, a body made of assignments, calls, if / for / while, yields — no return, no nested
        definitions, no try / with"""
        if not isinstance(call, ast.Call) or any(isinstance(a, ast.Starred) for a in call.args) or any(k.arg is None for k in call.keywords):
            return None
        f = call.func
        g, recv = None, None
        if isinstance(f, ast.Name):
            g = self.mod_funcs.get(f.id)
            if self.fn_nodes:
                # a generator defined inside the current function (a closure): its free variables mean the same here
                for st in self.fn_nodes[-1].body:
                    if isinstance(st, ast.FunctionDef) and st.name == f.id:
                        g = st
        elif isinstance(f, ast.Attribute) and isinstance(f.value, ast.Name) and self.cls and self.cls[-1] in self.classes and (f.value.id in ("self", "cls") or f.value.id == self.cls[-1]):
            g = self.classes[self.cls[-1]][1].get(f.attr)
            recv = f.value.id
        if g is None or g.args.vararg or g.args.kwarg or g.args.kwonlyargs or g.args.posonlyargs:
            return None
        if any(isinstance(n, ast.Call) and ((isinstance(n.func, ast.Name) and n.func.id == g.name) or (isinstance(n.func, ast.Attribute) and n.func.attr == g.name)) for n in ast.walk(g)):
            return None  # a generator that calls itself is not unfolded
        decos = {ast.unparse(d) for d in g.decorator_list}
        if decos - {"staticmethod", "classmethod"}:
            return None
        params = [a.arg for a in g.args.args]
        bound = {}
        if recv is not None and "staticmethod" not in decos:
            if not params:
                return None
            if "classmethod" in decos and recv == "self":
                bound[params[0]] = ast.Call(func=ast.Name(id="type", ctx=ast.Load()), args=[ast.Name(id="self", ctx=ast.Load())], keywords=[])
            else:
                bound[params[0]] = ast.Name(id=recv, ctx=ast.Load())
            params = params[1:]
        if len(call.args) > len(params):
            return None
        for p_, a_ in zip(params, call.args):
            bound[p_] = a_
        for k in call.keywords:
            if k.arg not in params or k.arg in bound:
                return None
            bound[k.arg] = k.value
        defaults = dict(zip([a.arg for a in g.args.args][len(g.args.args) - len(g.args.defaults):], g.args.defaults)) if g.args.defaults else {}
        for p_ in params:
            if p_ not in bound:
                if p_ not in defaults:
                    return None
                bound[p_] = defaults[p_]
        self._gen_pre = []
        for p_, v in list(bound.items()):
            if _simple(v) or (isinstance(v, ast.Call) and ast.unparse(v) == "type(self)"):
                continue
            if not _pure_expr(v) and not isinstance(v, (ast.BoolOp, ast.IfExp, ast.Tuple)):
                return None
            if any(isinstance(n, (ast.Call, ast.Lambda, ast.NamedExpr, ast.Yield)) for n in ast.walk(v)):
                return None
            # an argument that is an expression is first bound to a fresh local, as the call would do
            self._gen_count = getattr(self, "_gen_count", 0) + 1
            nm = "%s_arg%d" % (p_, self._gen_count)
            self._gen_pre.append(ast.copy_location(ast.Assign(targets=[ast.Name(id=nm, ctx=ast.Store())], value=v, type_comment=None), call))
            bound[p_] = ast.Name(id=nm, ctx=ast.Load())

        loaded = {n.id for n in ast.walk(g) if isinstance(n, ast.Name) and isinstance(n.ctx, ast.Load)}

        def ok(stmts, in_loop):
            for st in stmts:
                if isinstance(st, ast.Expr) and isinstance(st.value, ast.Yield):
                    if st.value.value is None:
                        return False
                    continue
                if _dead_store(st, loaded):
                    continue
                if isinstance(st, (ast.Assign, ast.AugAssign, ast.AnnAssign, ast.Expr, ast.Pass)):
                    if any(isinstance(n, (ast.Yield, ast.YieldFrom, ast.Lambda, ast.NamedExpr)) for n in ast.walk(st)):
                        return False
                    continue
                if isinstance(st, ast.If):
                    if any(isinstance(n, (ast.Yield, ast.YieldFrom, ast.NamedExpr)) for n in ast.walk(st.test)) or not ok(st.body, in_loop) or not ok(st.orelse, in_loop):
                        return False
                    continue
                if isinstance(st, (ast.For, ast.While)):
                    if st.orelse or not ok(st.body, True):
                        return False
                    continue
                if isinstance(st, (ast.Continue, ast.Break)) and in_loop:
                    continue
                return False
            return True

        if not ok(g.body, False) or not any(isinstance(n, ast.Yield) for n in ast.walk(g)):
            return None
        return g, bound

    def _inline_generator(self, node, got):
        """for <target> in g(args): BODY  ->  g's statements with every `yield v` replaced by BODY[target := v]
        (parameters replaced by the arguments, g's locals renamed apart from the caller's)"""
        g, bound = got
        if node.orelse or _has_loop_jump(node.body, (ast.Break, ast.Continue)):
            return None
        stores = _stores(node.body)
        counter = [0]
        g_stores = {n.id for n in ast.walk(g) if isinstance(n, ast.Name) and isinstance(n.ctx, (ast.Store, ast.Del))}
        g_loaded = {n.id for n in ast.walk(g) if isinstance(n, ast.Name) and isinstance(n.ctx, ast.Load)}
        if g_stores & set(bound):
            return None  # a parameter is re-bound inside the generator
        caller_names = set(self.fn[-1][2]) | set(self.fn[-1][1]) if self.fn else set()
        rename = {n: ast.Name(id="%s_g" % n, ctx=ast.Load()) for n in g_stores if n in caller_names}

        class _Ren(ast.NodeTransformer):
            def visit_Name(self_, n):
                if n.id in rename:
                    return ast.copy_location(ast.Name(id=rename[n.id].id, ctx=n.ctx), n)
                if n.id in bound and isinstance(n.ctx, ast.Load):
                    return ast.copy_location(copy.deepcopy(bound[n.id]), n)
                return n

        def conv(stmts):
            out = []
            for st in stmts:
                if isinstance(st, ast.Expr) and isinstance(st.value, ast.Constant):
                    continue
                if _dead_store(st, g_loaded):
                    continue
                if isinstance(st, ast.Expr) and isinstance(st.value, ast.Yield):
                    val = _Ren().visit(copy.deepcopy(st.value.value))
                    m, pre = {}, []
                    tgt = node.target
                    if isinstance(tgt, ast.Tuple) and isinstance(val, ast.Tuple) and len(tgt.elts) == len(val.elts) and all(isinstance(t, ast.Name) for t in tgt.elts):
                        for t, v in zip(tgt.elts, val.elts):
                            if _simple(v) and t.id not in stores:
                                m[t.id] = v
                            else:
                                pre.append(ast.copy_location(ast.Assign(targets=[ast.Name(id=t.id, ctx=ast.Store())], value=v, type_comment=None), st))
                    elif isinstance(tgt, ast.Name):
                        if _simple(val) and tgt.id not in stores:
                            m[tgt.id] = val
                        else:
                            pre.append(ast.copy_location(ast.Assign(targets=[ast.Name(id=tgt.id, ctx=ast.Store())], value=val, type_comment=None), st))
                    else:
                        pre.append(ast.copy_location(ast.Assign(targets=[copy.deepcopy(tgt)], value=val, type_comment=None), st))
                    k = counter[0]
                    counter[0] += 1
                    out += [ast.fix_missing_locations(p_) for p_ in pre]
                    for s_ in node.body:
                        s2 = _Beta().visit(_FoldAttr().visit(_Subst(m).visit(copy.deepcopy(s_))))
                        for n in ast.walk(s2):
                            n._uidx = (k,) + getattr(n, "_uidx", ())
                        out.append(s2)
                    continue
                st2 = copy.deepcopy(st)
                if isinstance(st2, (ast.If, ast.For, ast.While)):
                    body, orelse = conv(st.body), conv(st.orelse)
                    if body is None or orelse is None:
                        return None
                    if isinstance(st2, ast.If):
                        st2.test = _Ren().visit(st2.test)
                    elif isinstance(st2, ast.While):
                        st2.test = _Ren().visit(st2.test)
                    else:
                        st2.target = _Ren().visit(st2.target)
                        st2.iter = _Ren().visit(st2.iter)
                    st2.body = body or [ast.copy_location(ast.Pass(), st)]
                    st2.orelse = orelse
                    out.append(st2)
                else:
                    out.append(_Ren().visit(st2))
            return out

        return conv(g.body)

    def visit_Expr(self, node):
        self.generic_visit(node)
        c = node.value
        # self._helper(TABLE ..) as a statement: a private procedure of the class that is handed a constant table runs its
        # statements on that table (parameters replaced by the arguments, its locals renamed apart)
        if isinstance(c, ast.Call) and isinstance(c.func, ast.Attribute) and isinstance(c.func.value, ast.Name) and c.func.value.id == "self" and self.cls and c.func.attr.startswith("_") and not c.func.attr.startswith("__") and not c.keywords and c.args and not any(isinstance(a, ast.Starred) for a in c.args):
            h = self.classes.get(self.cls[-1], ({}, {}))[1].get(c.func.attr)
            if h is not None and not h.decorator_list and self.fn_nodes and h is not self.fn_nodes[-1]:
                a = h.args
                body = [x for x in h.body if not (isinstance(x, ast.Expr) and isinstance(x.value, ast.Constant) and isinstance(x.value.value, str))]
                plain = not (a.vararg or a.kwarg or a.kwonlyargs or a.posonlyargs or a.defaults) and len(a.args) == len(c.args) + 1
                tables = [self.table(x) for x in c.args]
                if plain and any(t is not None for t in tables) and all(t is not None or _simple(x) for t, x in zip(tables, c.args)) and body and not any(isinstance(n, (ast.Return, ast.Yield, ast.YieldFrom, ast.Lambda, ast.FunctionDef, ast.Global, ast.Nonlocal)) for st in body for n in ast.walk(st)) and not any(isinstance(n, ast.Call) and isinstance(n.func, ast.Attribute) and n.func.attr == h.name for st in body for n in ast.walk(st)):
                    params = [p_.arg for p_ in a.args]
                    stored = _stores(body)
                    if not (stored & set(params)):
                        self._proc_count = getattr(self, "_proc_count", 0) + 1
                        ren = {v: "%s_q%d" % (v, self._proc_count) for v in stored}
                        mapping = dict(zip(params[1:], c.args))
                        mapping[params[0]] = ast.Name(id="self", ctx=ast.Load())

                        class _R(ast.NodeTransformer):
                            def visit_Name(self_, n):
                                if n.id in ren:
                                    return ast.copy_location(ast.Name(id=ren[n.id], ctx=n.ctx), n)
                                if n.id in mapping and isinstance(n.ctx, ast.Load):
                                    return ast.copy_location(copy.deepcopy(mapping[n.id]), n)
                                return n

                        out = []
                        for st in body:
                            st2 = self.visit(_R().visit(copy.deepcopy(st)))
                            out += st2 if isinstance(st2, list) else [st2]
                        self.count += 1
                        return [ast.fix_missing_locations(ast.copy_location(x, node)) for x in out]
        return node

    def visit_For(self, node):
        self.generic_visit(node)
        it = node.iter
        if isinstance(it, ast.Call) and isinstance(it.func, ast.Name) and it.func.id == "zip" and len(it.args) >= 2 and not it.keywords and not node.orelse:
            ts = [self.table(a, 1) for a in it.args]
            loose = [i for i, (t, a) in enumerate(zip(ts, it.args)) if not (t and t[0] == "rows") and not isinstance(a, ast.Name)]
            if any(t and t[0] == "rows" for t in ts) and loose and all(not isinstance(it.args[i], (ast.Starred, ast.GeneratorExp)) for i in loose):
                # zip(TABLE, <expression>): the expression is evaluated once, before the loop, into a local
                pre = []
                for i in loose:
                    self._zip_count = getattr(self, "_zip_count", 0) + 1
                    nm = "_zipped%d" % self._zip_count
                    pre.append(ast.fix_missing_locations(ast.copy_location(ast.Assign(targets=[ast.Name(id=nm, ctx=ast.Store())], value=it.args[i], type_comment=None), node)))
                    it.args[i] = ast.copy_location(ast.Name(id=nm, ctx=ast.Load()), node)
                t = self.table(it)
                if t is not None:
                    rows = list(t[1].keys) if t[0] == "pairs" else t[1]
                    un = self.unroll(node, rows)
                    if un:
                        return pre + (un if isinstance(un, list) else [un])
                return pre + [node]
        got = self._simple_generator(node.iter)
        if got is not None:
            pre = [ast.fix_missing_locations(x) for x in getattr(self, "_gen_pre", [])]
            out = self._inline_generator(node, got)
            if out:
                out = pre + out
                self.count += 1
                out = [self.visit(x) if isinstance(x, (ast.For, ast.If, ast.While)) else x for x in out]
                return [y for x in out for y in (x if isinstance(x, list) else [x])]
        t = self.table(node.iter)
        if t is None:
            return node
        rows = list(t[1].keys) if t[0] == "pairs" else t[1]
        return self.unroll(node, rows) or node

    # ---- with-statements over simple context managers of the same class / module
    def _context_manager(self, call):
        """(function def, receiver name or None) when `call` invokes a @contextmanager generator defined in this module"""
        f = call.func
        fn = recv = None
        if isinstance(f, ast.Name):
            fn = self.mod_funcs.get(f.id)
        elif isinstance(f, ast.Attribute) and isinstance(f.value, ast.Name) and f.value.id in ("self", "cls") and self.cls:
            fn = self.classes.get(self.cls[-1], ({}, {}))[1].get(f.attr)
            recv = f.value.id
        if fn is None:
            return None
        decos = {ast.unparse(d) for d in fn.decorator_list}
        if not decos & {"contextmanager", "contextlib.contextmanager"}:
            return None
        return fn, recv

    def visit_With(self, node):
        self.generic_visit(node)
        if len(node.items) != 1 or not isinstance(node.items[0].context_expr, ast.Call):
            return node
        item = node.items[0]
        call = item.context_expr
        got = self._context_manager(call)
        if got is None or call.keywords or any(isinstance(a, ast.Starred) or not _simple(a) for a in call.args):
            return node
        fn, recv = got
        params = [a.arg for a in fn.args.args]
        if recv is not None:
            if not params:
                return node
            params = params[1:]
        if len(params) != len(call.args) or fn.args.vararg or fn.args.kwarg or fn.args.kwonlyargs or fn.args.defaults:
            return node
        body = [st for st in fn.body if not (isinstance(st, ast.Expr) and isinstance(st.value, ast.Constant))]
        # no plain local may be bound inside the manager (it would leak into the caller's scope)
        if any(isinstance(n, ast.Name) and isinstance(n.ctx, (ast.Store, ast.Del)) for st in body for n in ast.walk(st)):
            return node
        if any(isinstance(n, (ast.Return, ast.FunctionDef, ast.Lambda)) for st in body for n in ast.walk(st)):
            return node

        def is_yield(st):
            return isinstance(st, ast.Expr) and isinstance(st.value, ast.Yield)

        n_yield = sum(1 for st in body for n in ast.walk(st) if isinstance(n, (ast.Yield, ast.YieldFrom)))
        if n_yield != 1:
            return node
        mapping = dict(zip(params, call.args))

        def sub(stmts):
            return [ast.copy_location(_Subst(mapping).visit(copy.deepcopy(st)), node) if False else _Subst(mapping).visit(copy.deepcopy(st)) for st in stmts]

        idx = [i for i, st in enumerate(body) if is_yield(st)]
        yielded = None
        if idx:
            pre, post = body[: idx[0]], body[idx[0] + 1 :]
            yielded = body[idx[0]].value.value
            core = list(node.body)
            wrap = None
        else:
            # pre ; try: yield  finally: post
            tr = [i for i, st in enumerate(body) if isinstance(st, ast.Try) and len(st.body) == 1 and is_yield(st.body[0]) and not st.handlers and not st.orelse and st.finalbody]
            if len(tr) != 1 or tr[0] != len(body) - 1:
                return node
            pre, post = body[: tr[0]], []
            yielded = body[tr[0]].body[0].value.value
            wrap = body[tr[0]]
            core = list(node.body)
        out = sub(pre)
        if item.optional_vars is not None:
            if not isinstance(item.optional_vars, ast.Name) or yielded is None:
                return node
            val = _Subst(mapping).visit(copy.deepcopy(yielded))
            out.append(ast.copy_location(ast.Assign(targets=[item.optional_vars], value=val, type_comment=None), node))
        if wrap is None:
            out += core + sub(post)
        else:
            out.append(ast.copy_location(ast.Try(body=core, handlers=[], orelse=[], finalbody=sub(wrap.finalbody)), node))
        self.count += 1
        return out

    # ---- comprehensions over tables
    def _comp_items(self, node, elt_of):
        if not node.generators or len(node.generators) > 3 or any(g.is_async for g in node.generators):
            return None
        out = []

        def rec(gens, mapping, conds):
            if not gens:
                out.append((elt_of(mapping), conds))
                return True
            g = gens[0]
            it = g.iter if not mapping else _FoldAttr().visit(_Subst(mapping).visit(copy.deepcopy(g.iter)))
            t = self.table(it)
            if t is None and mapping and isinstance(it, (ast.Tuple, ast.List)) and len(it.elts) <= MAX_ROWS:
                t = ("rows", list(it.elts))  # a display over the outer loop variable: its elements as they stand
            if t is None:
                return False
            rows = list(t[1].keys) if t[0] == "pairs" else t[1]
            for r in rows:
                m = {}
                if not self.bind(g.target, r, m):
                    return False
                m2 = dict(mapping, **m)
                cs = conds + [_FoldAttr().visit(_Subst(m2).visit(copy.deepcopy(c))) for c in g.ifs]
                if not rec(gens[1:], m2, cs):
                    return False
                if len(out) > MAX_ROWS:
                    return False
            return True

        return out if rec(list(node.generators), {}, []) else None

    def visit_DictComp(self, node):
        """{k: v for .. in TABLE}  ->  the dict display with one entry per row (keys constant after substitution)"""
        self.generic_visit(node)
        pair = ast.Tuple(elts=[node.key, node.value], ctx=ast.Load())
        fake = ast.ListComp(elt=pair, generators=node.generators)
        items = self._comp_items(fake, lambda m: _FoldAttr().visit(_Subst(m).visit(copy.deepcopy(pair))))
        if items is None or any(c for _e, c in items) or not all(isinstance(e.elts[0], ast.Constant) for e, _c in items):
            return node
        self.count += 1
        return ast.copy_location(ast.Dict(keys=[e.elts[0] for e, _c in items], values=[e.elts[1] for e, _c in items]), node)

    def visit_ListComp(self, node):
        self.generic_visit(node)
        items = self._comp_items(node, lambda m: _FoldAttr().visit(_Subst(m).visit(copy.deepcopy(node.elt))))
        if items is None or any(c for _e, c in items):
            return node
        self.count += 1
        return ast.copy_location(ast.List(elts=[e for e, _c in items], ctx=ast.Load()), node)

    def visit_Assign(self, node):
        self.generic_visit(node)
        if len(node.targets) != 1:
            return node
        t, v = node.targets[0], node.value
        names = [x.id for x in t.elts] if isinstance(t, ast.Tuple) and all(isinstance(x, ast.Name) for x in t.elts) else None
        if names and isinstance(v, ast.GeneratorExp):
            # a generator over a constant table that is unpacked at once: its items, in order
            items = self._comp_items(v, lambda m: _FoldAttr().visit(_Subst(m).visit(copy.deepcopy(v.elt))))
            if items is not None and not any(c for _e, c in items) and len(items) == len(names):
                v = ast.copy_location(ast.Tuple(elts=[e for e, _c in items], ctx=ast.Load()), v)
                node.value = v
                self.count += 1
        if names and isinstance(v, ast.Call) and not v.args and not v.keywords:
            # unpacking what a parameterless helper returns as a literal
            tb = self.table(v)
            if tb and tb[0] == "rows" and len(tb[1]) == len(names) and not any(isinstance(r, ast.Lambda) for r in tb[1]):
                v = ast.copy_location(ast.Tuple(elts=[copy.deepcopy(r) for r in tb[1]], ctx=ast.Load()), v)
                node.value = v
                self.count += 1
        if names and len(set(names)) == len(names) and isinstance(v, (ast.Tuple, ast.List)) and len(v.elts) == len(names) and not any(isinstance(x, ast.Starred) for x in v.elts):
            # a, b = e1, e2 where neither expression reads a or b: two assignments
            read = {x.id for e in v.elts for x in ast.walk(e) if isinstance(x, ast.Name)}
            if not read & set(names):
                return [ast.copy_location(ast.Assign(targets=[ast.copy_location(ast.Name(id=n, ctx=ast.Store()), tn)], value=e, type_comment=None), node) for n, tn, e in zip(names, t.elts, v.elts)]
        if isinstance(t, ast.Name) and isinstance(v, ast.Call) and isinstance(v.func, ast.Name) and v.func.id == "next" and len(v.args) == 1 and not v.keywords and isinstance(v.args[0], ast.GeneratorExp):
            # x = next(i for i in itertools.count(S) if C)  ==  x = S; while not C[i := x]: x += 1
            g = v.args[0]
            if len(g.generators) == 1 and not g.generators[0].is_async:
                gen = g.generators[0]
                it = gen.iter
                is_count = isinstance(it, ast.Call) and not it.keywords and len(it.args) == 1 and ((isinstance(it.func, ast.Name) and it.func.id == "count") or (isinstance(it.func, ast.Attribute) and it.func.attr == "count" and isinstance(it.func.value, ast.Name) and it.func.value.id == "itertools"))
                if is_count and isinstance(gen.target, ast.Name) and isinstance(g.elt, ast.Name) and g.elt.id == gen.target.id and gen.ifs:
                    i = gen.target.id
                    reads = {x.id for c in gen.ifs for x in ast.walk(c) if isinstance(x, ast.Name)}
                    if t.id not in reads or t.id == i:
                        cond = gen.ifs[0] if len(gen.ifs) == 1 else ast.BoolOp(op=ast.And(), values=list(gen.ifs))
                        cond = _Subst({i: ast.Name(id=t.id, ctx=ast.Load())}).visit(copy.deepcopy(cond))
                        first = ast.copy_location(ast.Assign(targets=[t], value=it.args[0], type_comment=None), node)
                        step = ast.copy_location(ast.AugAssign(target=ast.Name(id=t.id, ctx=ast.Store()), op=ast.Add(), value=ast.Constant(value=1)), node)
                        loop = ast.copy_location(ast.While(test=ast.UnaryOp(op=ast.Not(), operand=cond), body=[step], orelse=[]), node)
                        self.count += 1
                        return [first, loop]
        return node

    def visit_Call(self, node):
        self.generic_visit(node)
        if len(node.args) == 1 and not node.keywords and isinstance(node.args[0], ast.GeneratorExp):
            # a generator over a constant table handed to the one who consumes it: its items, in order.  all / any stop
            # at the first item that decides: `e1 and e2 ..` / `e1 or e2 ..`
            g = node.args[0]
            fname = ast.unparse(node.func)
            eager = fname in ("list", "tuple", "set", "frozenset", "sum", "max", "min", "sorted", "itertools.chain.from_iterable", "chain.from_iterable") or (isinstance(node.func, ast.Attribute) and node.func.attr in ("extend", "update", "join"))
            if eager or fname in ("all", "any"):
                items = self._comp_items(g, lambda m: _FoldAttr().visit(_Subst(m).visit(copy.deepcopy(g.elt))))
                if items is not None and items and not any(c for _e, c in items) and len(items) <= MAX_ROWS:
                    self.count += 1
                    if eager:
                        node.args[0] = ast.copy_location(ast.Tuple(elts=[e for e, _c in items], ctx=ast.Load()), g)
                        return node
                    op = ast.And() if fname == "all" else ast.Or()
                    test = items[0][0] if len(items) == 1 else ast.BoolOp(op=op, values=[e for e, _c in items])
                    return ast.copy_location(ast.Call(func=ast.Name(id="bool", ctx=ast.Load()), args=[test], keywords=[]), node)
        if ast.unparse(node.func) in ("functools.reduce", "reduce") and len(node.args) == 3 and not node.keywords and isinstance(node.args[0], ast.Lambda) and len(node.args[0].args.args) == 2 and _simple(node.args[0]) and _simple(node.args[2]):
            # reduce(lambda acc, row: E, TABLE, init): E applied row after row
            t = self.table(node.args[1])
            if t and t[0] == "rows" and 1 <= len(t[1]) <= MAX_ROWS:
                lam = node.args[0]
                a_, r_ = [x.arg for x in lam.args.args]
                uses = sum(1 for x in ast.walk(lam.body) if isinstance(x, ast.Name) and x.id == a_)
                if uses <= 1:
                    acc = node.args[2]
                    for row in t[1]:
                        acc = _AttrOps().visit(_Subst({a_: acc, r_: row}).visit(copy.deepcopy(lam.body)))
                    self.count += 1
                    return ast.copy_location(_TrueAnd().visit(acc), node)
        if isinstance(node.func, ast.Name) and node.func.id == "all" and len(node.args) == 1 and not node.keywords and isinstance(node.args[0], ast.Call):
            # all(map(operator.eq, A, B)) over two tables of the same length: a_0 == b_0 and a_1 == b_1 ...
            mp = node.args[0]
            if isinstance(mp.func, ast.Name) and mp.func.id == "map" and len(mp.args) == 3 and not mp.keywords and ast.unparse(mp.args[0]) in ("operator.eq", "eq"):
                ta, tb = self.table(mp.args[1]), self.table(mp.args[2])
                if ta and tb and ta[0] == tb[0] == "rows" and len(ta[1]) == len(tb[1]) >= 2:
                    self.count += 1
                    return ast.copy_location(ast.BoolOp(op=ast.And(), values=[ast.copy_location(ast.Compare(left=copy.deepcopy(a), ops=[ast.Eq()], comparators=[copy.deepcopy(b)]), node) for a, b in zip(ta[1], tb[1])]), node)
        if isinstance(node.func, ast.Name) and node.func.id in ("all", "any") and len(node.args) == 1 and not node.keywords and isinstance(node.args[0], (ast.GeneratorExp, ast.ListComp, ast.List)):
            a = node.args[0]
            if isinstance(a, ast.List):
                elts = list(a.elts)
            else:
                items = self._comp_items(a, lambda m: _FoldAttr().visit(_Subst(m).visit(copy.deepcopy(a.elt))))
                if items is None or any(c for _e, c in items):
                    return node
                elts = [e for e, _c in items]
            if len(elts) >= 2 and not any(isinstance(x, ast.Starred) for x in elts):
                self.count += 1
                return ast.copy_location(ast.BoolOp(op=ast.And() if node.func.id == "all" else ast.Or(), values=elts), node)
        return node

    def unroll(self, node, rows):
        stores = _stores(node.body)
        maps = []
        for r in rows:
            m = {}
            if not self.bind(node.target, r, m):
                return None
            maps.append(m)
        names = set(maps[0]) if maps else set()
        if names & stores:
            return None
        body = node.body
        has_break = _has_loop_jump(body, (ast.Break,))
        has_continue = _has_loop_jump(body, (ast.Continue,))

        def inst(stmts, m):
            # every node of the k-th copy carries the path of row indices it was instantiated for (`_uidx`), so
            # that copies of one source position can still be told apart and ordered
            k = maps.index(m)
            out = []
            for s in stmts:
                s2 = _Subst(m).visit(copy.deepcopy(s))
                s2 = _FoldAttr().visit(s2)
                s2 = _Beta().visit(s2)
                for n in ast.walk(s2):
                    n._uidx = (k,) + getattr(n, "_uidx", ())
                out.append(s2)
            return out

        if not has_break and not has_continue:
            out = []
            for m in maps:
                out += inst(body, m)
            out += node.orelse
            self.count += 1
            return out or [ast.copy_location(ast.Pass(), node)]
        # `if c: continue` as leading guard(s), no break
        if has_continue and not has_break:
            k = 0
            while k < len(body) and isinstance(body[k], ast.If) and not body[k].orelse and len(body[k].body) == 1 and isinstance(body[k].body[0], ast.Continue):
                k += 1
            rest = body[k:]
            if k == 0 or _has_loop_jump(rest, (ast.Continue,)) or not rest:
                return None
            out = []
            for m in maps:
                guards = inst(body[:k], m)
                test = guards[0].test if len(guards) == 1 else ast.BoolOp(op=ast.Or(), values=[g.test for g in guards])
                neg = ast.copy_location(ast.UnaryOp(op=ast.Not(), operand=test), guards[0].test)
                out.append(ast.copy_location(ast.If(test=neg, body=inst(rest, m), orelse=[]), guards[0]))
            out += node.orelse
            self.count += 1
            return out
        # body == [if c: ...; break]  ->  if / elif chain, else = the loop's else
        if has_break and not has_continue and len(body) == 1 and isinstance(body[0], ast.If) and not body[0].orelse and body[0].body and isinstance(body[0].body[-1], ast.Break) and not _has_loop_jump(body[0].body[:-1], (ast.Break,)):
            chain = list(node.orelse)
            for m in reversed(maps):
                i = inst([body[0]], m)[0]
                i.body = i.body[:-1] or [ast.copy_location(ast.Pass(), i)]
                i.orelse = chain
                chain = [i]
            self.count += 1
            return chain
        # body == [if c: return ...]  (early return per row) is covered by the plain case (no break / continue)
        return None


class _SubElement(ast.NodeTransformer):
    """x = etree.SubElement(parent, tag, ...)  ->  x = etree.Element(tag, ...); parent.append(x)   (same effect)"""

    @staticmethod
    def _is_sub(c):
        return isinstance(c, ast.Call) and isinstance(c.func, ast.Attribute) and c.func.attr == "SubElement" and len(c.args) >= 2 and _simple(c.args[0])

    def _element(self, c):
        f = ast.copy_location(ast.Attribute(value=c.func.value, attr="Element", ctx=ast.Load()), c.func)
        return ast.copy_location(ast.Call(func=f, args=c.args[1:], keywords=c.keywords), c)

    def _append(self, parent, what, at):
        f = ast.copy_location(ast.Attribute(value=copy.deepcopy(parent), attr="append", ctx=ast.Load()), at)
        return ast.copy_location(ast.Expr(value=ast.copy_location(ast.Call(func=f, args=[what], keywords=[]), at)), at)

    def visit_Assign(self, node):
        if self._is_sub(node.value) and len(node.targets) == 1 and isinstance(node.targets[0], ast.Name):
            c = node.value
            first = ast.copy_location(ast.Assign(targets=node.targets, value=self._element(c), type_comment=None), node)
            second = self._append(c.args[0], ast.copy_location(ast.Name(id=node.targets[0].id, ctx=ast.Load()), node), node)
            for n in ast.walk(second):
                n._uidx = getattr(node, "_uidx", ())
            return [first, second]
        return node

    def visit_Expr(self, node):
        if self._is_sub(node.value):
            c = node.value
            return self._append(c.args[0], self._element(c), node)
        return node


class _HoistElement(ast.NodeTransformer):
    """f(.., etree.Element(tag), ..) in a return / assignment / expression statement  ->  e = etree.Element(tag);
    f(.., e, ..): a freshly made element handed on directly is first bound to a name (building it has no effect)"""

    def __init__(self):
        self.n = 0

    @staticmethod
    def _is_new(c):
        return isinstance(c, ast.Call) and isinstance(c.func, ast.Attribute) and c.func.attr == "Element" and isinstance(c.func.value, ast.Name) and c.func.value.id in ("etree", "ET", "ElementTree") and not c.keywords

    def _hoist(self, node, call):
        pre = []
        if isinstance(call, ast.Call) and not self._is_new(call):
            for i, a in enumerate(call.args):
                if self._is_new(a):
                    self.n += 1
                    nm = "_element%d" % self.n
                    pre.append(ast.copy_location(ast.Assign(targets=[ast.Name(id=nm, ctx=ast.Store())], value=a, type_comment=None), node))
                    call.args[i] = ast.copy_location(ast.Name(id=nm, ctx=ast.Load()), a)
        return pre

    def visit_Return(self, node):
        pre = self._hoist(node, node.value)
        return [ast.fix_missing_locations(p) for p in pre] + [node] if pre else node

    def visit_Assign(self, node):
        pre = self._hoist(node, node.value)
        return [ast.fix_missing_locations(p) for p in pre] + [node] if pre else node


def _collect_records(tree):
    """record classes of the module (typing.NamedTuple classes, collections.namedtuple assignments) into _RECORDS"""
    _RECORDS.clear()
    for st in tree.body:
        if isinstance(st, ast.ClassDef) and any(ast.unparse(b).split(".")[-1] == "NamedTuple" for b in st.bases) and "__new__" not in {x.name for x in st.body if isinstance(x, ast.FunctionDef)}:
            flds = [x for x in st.body if isinstance(x, ast.AnnAssign) and isinstance(x.target, ast.Name)]
            _RECORDS[st.name] = ([x.target.id for x in flds], {x.target.id: x.value for x in flds if x.value is not None and isinstance(x.value, ast.Constant)})
        if isinstance(st, ast.Assign) and len(st.targets) == 1 and isinstance(st.targets[0], ast.Name) and isinstance(st.value, ast.Call) and ast.unparse(st.value.func) in ("namedtuple", "collections.namedtuple") and len(st.value.args) == 2 and not st.value.keywords:
            spec = st.value.args[1]
            names = None
            if isinstance(spec, (ast.List, ast.Tuple)) and all(isinstance(x, ast.Constant) and isinstance(x.value, str) for x in spec.elts):
                names = [x.value for x in spec.elts]
            elif isinstance(spec, ast.Constant) and isinstance(spec.value, str):
                names = spec.value.replace(",", " ").split()
            if names and all(n.isidentifier() for n in names):
                _RECORDS[st.targets[0].id] = (names, {})


def _callable_literal(e):
    """lambda without defaults, or operator.attrgetter("name")"""
    if isinstance(e, ast.Lambda):
        return _simple(e)
    if isinstance(e, ast.Call) and not e.keywords and len(e.args) == 1 and isinstance(e.args[0], ast.Constant) and isinstance(e.args[0].value, str) and e.args[0].value.isidentifier():
        f = e.func
        return (isinstance(f, ast.Name) and f.id == "attrgetter") or (isinstance(f, ast.Attribute) and f.attr == "attrgetter" and isinstance(f.value, ast.Name) and f.value.id == "operator")
    return False


class _ApplyParam(ast.NodeTransformer):
    """p(x) -> body of the lambda bound to p with x substituted / x.name for attrgetter("name")"""

    def __init__(self, mapping):
        self.mapping = mapping
        self.failed = False

    def visit_Call(self, node):
        self.generic_visit(node)
        if isinstance(node.func, ast.Name) and node.func.id in self.mapping:
            lit = self.mapping[node.func.id]
            if node.keywords or any(isinstance(a, ast.Starred) for a in node.args):
                self.failed = True
                return node
            if isinstance(lit, ast.Lambda):
                if len(node.args) != len(lit.args.args):
                    self.failed = True
                    return node
                new = _Beta().visit(ast.copy_location(ast.Call(func=copy.deepcopy(lit), args=node.args, keywords=[]), node))
                if isinstance(new, ast.Call) and isinstance(new.func, ast.Lambda):
                    self.failed = True
                return new
            if len(node.args) != 1:
                self.failed = True
                return node
            return ast.copy_location(ast.Attribute(value=node.args[0], attr=lit.args[0].value, ctx=ast.Load()), node)
        return node


def _delegations(tree):
    """A method whose whole body is `return self.helper(.., <callable literal>, ..)` — a private helper of the same
    class parameterised by a function — is given the helper's body with the function applied: the two spellings
    `def succ(self, n): return self._walk(n, attrgetter("successor"))` and the walk written out over `.successor`
    are the same program.  Other arguments become assignments to the helper's parameters at the top of the body."""
    count = 0
    for cls in [n for n in ast.walk(tree) if isinstance(n, ast.ClassDef)]:
        methods = {st.name: st for st in cls.body if isinstance(st, ast.FunctionDef)}
        for f in list(methods.values()):
            got = _single_return(f)
            if got is None:
                continue
            call = got[0]
            if not (isinstance(call, ast.Call) and isinstance(call.func, ast.Attribute) and isinstance(call.func.value, ast.Name) and f.args.args and call.func.value.id == f.args.args[0].arg):
                continue
            h = methods.get(call.func.attr)
            if h is None or h is f or h.decorator_list != [] and {ast.unparse(d) for d in h.decorator_list} != {ast.unparse(d) for d in f.decorator_list}:
                continue
            if not any(_callable_literal(a) for a in list(call.args) + [k.value for k in call.keywords]):
                continue
            if any(isinstance(a, ast.Starred) for a in call.args) or any(k.arg is None for k in call.keywords):
                continue
            ha = h.args
            if ha.vararg or ha.kwarg or ha.posonlyargs or ha.kwonlyargs or any(isinstance(n, (ast.Yield, ast.YieldFrom)) for n in ast.walk(h)):
                continue
            params = [a.arg for a in ha.args][1:]
            if len(call.args) > len(params):
                continue
            bound = dict(zip(params, call.args))
            ok = True
            for k in call.keywords:
                if k.arg in bound or k.arg not in params:
                    ok = False
                bound[k.arg] = k.value
            defaults = dict(zip(params[len(params) - len(ha.defaults):], ha.defaults)) if ha.defaults else {}
            for prm in params:
                if prm not in bound:
                    if prm in defaults:
                        bound[prm] = defaults[prm]
                    else:
                        ok = False
            if not ok:
                continue
            stored = {n.id for n in ast.walk(h) if isinstance(n, ast.Name) and isinstance(n.ctx, (ast.Store, ast.Del))}
            fun = {prm: a for prm, a in bound.items() if _callable_literal(a) and prm not in stored}
            # a function parameter must only ever be called
            callee_ids = {id(n.func) for n in ast.walk(h) if isinstance(n, ast.Call)}
            if any(isinstance(n, ast.Name) and n.id in fun and id(n) not in callee_ids for n in ast.walk(h)):
                continue
            if any(not _simple(a) and not _callable_literal(a) for prm, a in bound.items() if prm not in fun):
                continue
            hs, fs = h.args.args[0].arg, f.args.args[0].arg
            body = [copy.deepcopy(st) for st in h.body]
            ap = _ApplyParam(fun)
            body = [ap.visit(st) for st in body]
            if ap.failed:
                continue
            if hs != fs:
                body = [_Subst({hs: ast.Name(id=fs, ctx=ast.Load())}).visit(st) for st in body]
            pre = []
            for prm, a in bound.items():
                if prm in fun or (isinstance(a, ast.Name) and a.id == prm):
                    continue
                pre.append(ast.copy_location(ast.Assign(targets=[ast.Name(id=prm, ctx=ast.Store())], value=copy.deepcopy(a), type_comment=None), call))
            doc = [st for st in f.body if isinstance(st, ast.Expr) and isinstance(st.value, ast.Constant)]
            body = [st for st in body if not (isinstance(st, ast.Expr) and isinstance(st.value, ast.Constant) and isinstance(st.value.value, str))]
            f.body = doc + pre + body
            count += 1
    return count


class _MapExtend(ast.NodeTransformer):
    """x.extend(map(f, it)) as a statement  ->  for v in it: x.append(f(v));
    cls.P(args) where the class binds P = partial(g, c1, ..) once  ->  g(c1, .., args)"""

    def __init__(self, tree):
        self.partials = {}  # class name -> {attr: (func expr, [const args], {kw})}
        for c in [n for n in ast.walk(tree) if isinstance(n, ast.ClassDef)]:
            seen = {}
            for st in c.body:
                if isinstance(st, ast.Assign) and len(st.targets) == 1 and isinstance(st.targets[0], ast.Name):
                    nm = st.targets[0].id
                    seen[nm] = None if nm in seen else st.value
            for nm, v in seen.items():
                if isinstance(v, ast.Call) and ast.unparse(v.func) in ("partial", "functools.partial") and v.args and all(_simple(a) for a in v.args[1:]) and all(k.arg and _simple(k.value) for k in v.keywords) and isinstance(v.args[0], (ast.Name, ast.Attribute)):
                    self.partials.setdefault(c.name, {})[nm] = v
        self.cls = []
        self.n = 0
        # names of generator functions of the module (a def whose own body yields)
        self.generators = set()
        for fdef in [n for n in ast.walk(tree) if isinstance(n, ast.FunctionDef)]:
            stack = list(fdef.body)
            while stack:
                x = stack.pop()
                if isinstance(x, (ast.Yield, ast.YieldFrom)):
                    self.generators.add(fdef.name)
                    break
                if not isinstance(x, (ast.FunctionDef, ast.AsyncFunctionDef, ast.Lambda, ast.ClassDef)):
                    stack += list(ast.iter_child_nodes(x))

    def visit_For(self, node):
        self.generic_visit(node)
        it = node.iter
        # for v in chain(a, b, ..): BODY  ->  for v in a: BODY; for v in b: BODY; ..  (the parts are walked in this order)
        if isinstance(it, ast.Call) and ast.unparse(it.func) in ("itertools.chain", "chain") and it.args and not it.keywords and not any(isinstance(a, ast.Starred) for a in it.args) and not node.orelse and not _has_loop_jump(node.body, (ast.Break,)) and len(it.args) <= 6:
            out = []
            for a in it.args:
                lp = copy.deepcopy(node)
                lp.iter = a
                out.append(lp)
            self.n += 1
            return out
        return node

    def visit_ClassDef(self, node):
        self.cls.append(node.name)
        self.generic_visit(node)
        self.cls.pop()
        return node

    def visit_Call(self, node):
        self.generic_visit(node)
        f = node.func
        if isinstance(f, ast.Attribute) and isinstance(f.value, ast.Name):
            owner = self.cls[-1] if f.value.id in ("self", "cls") and self.cls else f.value.id
            p = self.partials.get(owner, {}).get(f.attr)
            if p is not None and not any(isinstance(a, ast.Starred) for a in node.args):
                kws = [copy.deepcopy(k) for k in p.keywords if k.arg not in {k2.arg for k2 in node.keywords}] + node.keywords
                return ast.copy_location(ast.Call(func=copy.deepcopy(p.args[0]), args=[copy.deepcopy(a) for a in p.args[1:]] + node.args, keywords=kws), node)
        return node

    def visit_Expr(self, node):
        self.generic_visit(node)
        c = node.value
        if isinstance(c, ast.Call) and isinstance(c.func, ast.Attribute) and c.func.attr == "extend" and len(c.args) == 1 and not c.keywords and isinstance(c.args[0], ast.Call) and ast.unparse(c.args[0].func) in ("itertools.chain", "chain") and not c.args[0].keywords and c.args[0].args and not any(isinstance(a, ast.Starred) for a in c.args[0].args) and _simple(c.func.value):
            # x.extend(chain(a, b, ..))  ->  x.extend(a); x.extend(b); ..   (the parts are consumed in this order anyway)
            out = []
            for part in c.args[0].args:
                e2 = ast.copy_location(ast.Expr(value=ast.copy_location(ast.Call(func=copy.deepcopy(c.func), args=[part], keywords=[]), c)), node)
                r = self.visit_Expr(e2)
                out += r if isinstance(r, list) else [r]
            return out
        if isinstance(c, ast.Call) and isinstance(c.func, ast.Attribute) and c.func.attr == "extend" and len(c.args) == 1 and not c.keywords:
            m = c.args[0]
            if isinstance(m, ast.Call) and ((isinstance(m.func, ast.Name) and m.func.id in self.generators) or (isinstance(m.func, ast.Attribute) and isinstance(m.func.value, ast.Name) and m.func.value.id in ("self", "cls") and m.func.attr in self.generators)):
                # x.extend(f(..))  ->  for v in f(..): x.append(v)   (what extend does with any iterable)
                self.n += 1
                v = "_extended%d" % self.n
                app = ast.Expr(value=ast.Call(func=ast.Attribute(value=c.func.value, attr="append", ctx=ast.Load()), args=[ast.Name(id=v, ctx=ast.Load())], keywords=[]))
                loop = ast.copy_location(ast.For(target=ast.Name(id=v, ctx=ast.Store()), iter=m, body=[ast.copy_location(app, node)], orelse=[], type_comment=None), node)
                return ast.fix_missing_locations(loop)
            if isinstance(m, (ast.GeneratorExp, ast.ListComp)) and len(m.generators) == 1 and not m.generators[0].is_async:
                gen = m.generators[0]
                app = ast.Expr(value=ast.Call(func=ast.Attribute(value=c.func.value, attr="append", ctx=ast.Load()), args=[m.elt], keywords=[]))
                inner = [ast.copy_location(app, node)]
                for cond in reversed(gen.ifs):
                    inner = [ast.copy_location(ast.If(test=cond, body=inner, orelse=[]), node)]
                loop = ast.copy_location(ast.For(target=gen.target, iter=gen.iter, body=inner, orelse=[], type_comment=None), node)
                return ast.fix_missing_locations(loop)
            if isinstance(m, ast.Call) and isinstance(m.func, ast.Name) and m.func.id == "map" and len(m.args) == 2 and not m.keywords and isinstance(m.args[0], (ast.Name, ast.Attribute, ast.Lambda)):
                self.n += 1
                v = "_mapped%d" % self.n
                call = ast.Call(func=m.args[0], args=[ast.Name(id=v, ctx=ast.Load())], keywords=[])
                call = self.visit_Call(ast.copy_location(call, node)) if not isinstance(m.args[0], ast.Lambda) else _Beta().visit(ast.copy_location(call, node))
                app = ast.Expr(value=ast.Call(func=ast.Attribute(value=c.func.value, attr="append", ctx=ast.Load()), args=[call], keywords=[]))
                loop = ast.For(target=ast.Name(id=v, ctx=ast.Store()), iter=m.args[1], body=[ast.copy_location(app, node)], orelse=[], type_comment=None)
                ast.copy_location(loop, node)
                return ast.fix_missing_locations(loop)
        return node


_PURE_NAMES = {"len", "abs", "min", "max", "float", "int", "bool", "sum", "round", "tuple", "sorted", "type", "isinstance", "issubclass"}


def _pure_expr(e):
    """no effect and no identity: constants, names, attribute reads, subscripts, arithmetic, comparisons, conditional
    expressions, tuples, and calls of numpy / math functions and a few builtins"""
    for n in ast.walk(e):
        if isinstance(n, ast.Call):
            f = n.func
            root = f
            while isinstance(root, ast.Attribute):
                root = root.value
            ok = (isinstance(f, ast.Name) and (f.id in _PURE_NAMES or f.id in _RECORDS)) or (isinstance(f, ast.Attribute) and isinstance(root, ast.Name) and root.id in ("np", "numpy", "math")) or (isinstance(f, ast.Attribute) and f.attr in ("sum", "min", "max", "all", "any", "transpose", "astype", "reshape", "flatten", "ravel", "copy", "mean", "cumsum", "dot", "tolist", "squeeze"))
            if not ok or any(isinstance(a, ast.Starred) for a in n.args) or any(k.arg is None for k in n.keywords):
                return False
        elif isinstance(n, ast.List) and all(isinstance(x, ast.Constant) for x in n.elts):
            continue  # a fresh list of constants handed to a function
        elif isinstance(n, (ast.Lambda, ast.ListComp, ast.SetComp, ast.DictComp, ast.GeneratorExp, ast.NamedExpr, ast.Yield, ast.YieldFrom, ast.Await, ast.Starred, ast.List, ast.Dict, ast.Set)):
            return False
    return True


def _inline_pure_helpers(tree):
    """A private module-level function whose body is single assignments of pure expressions to fresh locals followed
    by `return <pure expression>` is a named expression: a call of it with simple arguments is replaced by that
    expression (parameters -> arguments, locals -> their definitions).  Nothing is duplicated that could have an effect."""
    def qualifies(st, need_private=True):
        if not (isinstance(st, ast.FunctionDef) and not st.decorator_list) or (need_private and not (st.name.startswith("_") and not st.name.startswith("__"))):
            return None
        a = st.args
        if a.vararg or a.kwarg or a.kwonlyargs or a.posonlyargs or a.defaults:
            return None
        body = [x for x in st.body if not (isinstance(x, ast.Expr) and isinstance(x.value, ast.Constant))]
        # `_, r = divmod(a, b)`  ->  r = a % b ;  `q, _ = divmod(a, b)`  ->  q = a // b
        body2 = []
        for x in body:
            if isinstance(x, ast.Assign) and len(x.targets) == 1 and isinstance(x.targets[0], ast.Tuple) and len(x.targets[0].elts) == 2 and all(isinstance(t, ast.Name) for t in x.targets[0].elts) and isinstance(x.value, ast.Call) and isinstance(x.value.func, ast.Name) and x.value.func.id == "divmod" and len(x.value.args) == 2 and not x.value.keywords:
                q_, r_ = x.targets[0].elts
                a_, b_ = x.value.args
                if q_.id != "_":
                    body2.append(ast.copy_location(ast.Assign(targets=[q_], value=ast.BinOp(left=copy.deepcopy(a_), op=ast.FloorDiv(), right=copy.deepcopy(b_)), type_comment=None), x))
                if r_.id != "_":
                    body2.append(ast.copy_location(ast.Assign(targets=[r_], value=ast.BinOp(left=copy.deepcopy(a_), op=ast.Mod(), right=copy.deepcopy(b_)), type_comment=None), x))
            else:
                body2.append(x)
        body = body2
        if not body or not isinstance(body[-1], ast.Return) or body[-1].value is None:
            return None
        params = [p.arg for p in a.args]
        seen = set(params)
        for x in body[:-1]:
            tgt = x.targets[0] if isinstance(x, ast.Assign) and len(x.targets) == 1 else x.target if isinstance(x, ast.AnnAssign) and x.value is not None else None
            if not isinstance(tgt, ast.Name) or tgt.id in seen or not _pure_expr(x.value):
                return None
            seen.add(tgt.id)
        if _pure_expr(body[-1].value) and (len(body) > 1 or not need_private):
            return (params, body)
        return None

    helpers = {}
    for st in tree.body:
        q = qualifies(st)
        if q is not None:
            helpers[st.name] = q
    count = [0]
    # closures: a pure straight-line function defined inside a function and called there (its free names mean at the
    # call what they mean in the enclosing function, late binding)
    for outer in [n for n in ast.walk(tree) if isinstance(n, ast.FunctionDef)]:
        local = {}
        for st in outer.body:
            q = qualifies(st, need_private=False)
            if q is not None and isinstance(st, ast.FunctionDef):
                local[st.name] = q
        if not local:
            continue
        stored = {}
        for n in ast.walk(outer):
            if isinstance(n, ast.Name) and isinstance(n.ctx, ast.Store):
                stored[n.id] = stored.get(n.id, 0) + 1
        for hname, (params, body) in local.items():
            free = {n.id for x in body for n in ast.walk(x) if isinstance(n, ast.Name) and isinstance(n.ctx, ast.Load)} - set(params) - {t.targets[0].id for t in body[:-1] if isinstance(t, ast.Assign)}
            if any(stored.get(v, 0) > 1 for v in free):
                continue

            class _InlL(ast.NodeTransformer):
                def visit_FunctionDef(self, node):
                    if node.name == hname and node is not outer:
                        return node
                    self.generic_visit(node)
                    return node

                def visit_Call(self, node):
                    self.generic_visit(node)
                    if isinstance(node.func, ast.Name) and node.func.id == hname and not node.keywords and not any(isinstance(x, ast.Starred) for x in node.args) and len(node.args) == len(params) and all(_simple(x) or _pure_expr(x) for x in node.args):
                        env = dict(zip(params, node.args))
                        for x in body[:-1]:
                            tgt = x.targets[0] if isinstance(x, ast.Assign) else x.target
                            env[tgt.id] = _Subst(env).visit(copy.deepcopy(x.value))
                        out = _Subst(env).visit(copy.deepcopy(body[-1].value))
                        if sum(1 for _ in ast.walk(out)) <= 600:
                            count[0] += 1
                            return ast.copy_location(out, node)
                    return node

            _InlL().visit(outer)
            # the definition goes when nothing refers to it any more
            if not any(isinstance(n, ast.Name) and n.id == hname and isinstance(n.ctx, ast.Load) for st in outer.body if not (isinstance(st, ast.FunctionDef) and st.name == hname) for n in ast.walk(st)):
                outer.body = [st for st in outer.body if not (isinstance(st, ast.FunctionDef) and st.name == hname)] or [ast.Pass()]
    # private static methods that are pure straight-line code: Class._h(..) / cls._h(..) / self._h(..)
    for cdef in [n for n in tree.body if isinstance(n, ast.ClassDef)]:
        statics = {}
        bound_methods = {}
        for st in cdef.body:
            if isinstance(st, ast.FunctionDef) and [ast.unparse(d) for d in st.decorator_list] == ["staticmethod"] and st.name.startswith("_") and not st.name.startswith("__"):
                bare = copy.copy(st)
                bare.decorator_list = []
                q = qualifies(bare, need_private=False)
                if q is not None:
                    statics[st.name] = q
            elif isinstance(st, ast.FunctionDef) and not st.decorator_list and st.name.startswith("_") and not st.name.startswith("__") and st.args.args:
                # a private method that is one pure expression of its receiver and arguments
                q = qualifies(st, need_private=False)
                me = st.args.args[0].arg
                if q is not None and len(q[1]) == 1 and not any(isinstance(n, ast.Name) and n.id == me and isinstance(n.ctx, ast.Store) for n in ast.walk(st)):
                    bound_methods[st.name] = q
        if not statics and not bound_methods:
            continue

        class _InlS(ast.NodeTransformer):
            def visit_Call(self, node):
                self.generic_visit(node)
                f = node.func
                if isinstance(f, ast.Attribute) and f.attr in bound_methods and isinstance(f.value, ast.Name) and f.value.id == "self" and not node.keywords and not any(isinstance(x, ast.Starred) for x in node.args):
                    params, body = bound_methods[f.attr]
                    if len(node.args) + 1 == len(params) and all(_simple(x) for x in node.args):
                        out = _Subst(dict(zip(params, [f.value] + list(node.args)))).visit(copy.deepcopy(body[-1].value))
                        if sum(1 for _ in ast.walk(out)) <= 600:
                            count[0] += 1
                            return ast.copy_location(out, node)
                if isinstance(f, ast.Attribute) and f.attr in statics and isinstance(f.value, ast.Name) and f.value.id in ("self", "cls", cdef.name) and not node.keywords and not any(isinstance(x, ast.Starred) for x in node.args):
                    params, body = statics[f.attr]
                    if len(node.args) == len(params) and all(_simple(x) for x in node.args):
                        env = dict(zip(params, node.args))
                        for x in body[:-1]:
                            tgt = x.targets[0] if isinstance(x, ast.Assign) else x.target
                            env[tgt.id] = _Subst(env).visit(copy.deepcopy(x.value))
                        out = _Subst(env).visit(copy.deepcopy(body[-1].value))
                        if sum(1 for _ in ast.walk(out)) <= 600:
                            count[0] += 1
                            return ast.copy_location(out, node)
                return node

        for st in cdef.body:
            if isinstance(st, ast.FunctionDef) and st.name not in statics and st.name not in bound_methods:
                _InlS().visit(st)
    if not helpers:
        return count[0]

    class _Inl(ast.NodeTransformer):
        def visit_FunctionDef(self, node):
            if node.name in helpers:
                return node
            self.generic_visit(node)
            return node

        def visit_Call(self, node):
            self.generic_visit(node)
            if isinstance(node.func, ast.Name) and node.func.id in helpers and not node.keywords and not any(isinstance(x, ast.Starred) for x in node.args):
                params, body = helpers[node.func.id]
                if len(node.args) != len(params) or not all(_simple(x) for x in node.args):
                    return node
                env = dict(zip(params, node.args))
                for x in body[:-1]:
                    tgt = x.targets[0] if isinstance(x, ast.Assign) else x.target
                    env[tgt.id] = _Subst(env).visit(copy.deepcopy(x.value))
                out = _Subst(env).visit(copy.deepcopy(body[-1].value))
                if sum(1 for _ in ast.walk(out)) > 600:
                    return node
                count[0] += 1
                return ast.copy_location(out, node)
            return node

    _Inl().visit(tree)
    return count[0]


def _iterate_until(tree):
    """next(E for T in G(args) if P) where G is `while True: yield <state>; <update state>` (an endless iteration of an
    update over G's own parameters)  ->  state = args; while not P: update; then E — the first state that satisfies P.
    Applied to `x = next(..)` and `return next(..)` statements of module-level functions; when the arguments are the
    caller's variables of the same names as G's parameters, no copies are made."""
    gens = {}
    for st in tree.body:
        if not (isinstance(st, ast.FunctionDef) and not st.decorator_list):
            continue
        a = st.args
        if a.vararg or a.kwarg or a.kwonlyargs or a.posonlyargs or a.defaults:
            continue
        body = [x for x in st.body if not (isinstance(x, ast.Expr) and isinstance(x.value, ast.Constant))]
        if len(body) != 1 or not isinstance(body[0], ast.While) or body[0].orelse or not (isinstance(body[0].test, ast.Constant) and body[0].test.value is True):
            continue
        wb = body[0].body
        if not wb or not (isinstance(wb[0], ast.Expr) and isinstance(wb[0].value, ast.Yield) and wb[0].value.value is not None and _simple(wb[0].value.value)):
            continue
        params = [p.arg for p in a.args]
        ok = True
        for u in wb[1:]:
            if not isinstance(u, (ast.Assign, ast.AugAssign)) or any(isinstance(n, (ast.Yield, ast.YieldFrom, ast.Call, ast.Lambda)) for n in ast.walk(u)):
                ok = False
            else:
                for n in ast.walk(u):
                    if isinstance(n, ast.Name) and isinstance(n.ctx, ast.Store) and n.id not in params:
                        ok = False
        if ok:
            gens[st.name] = (params, wb[0].value.value, wb[1:])
    if not gens:
        return 0
    count = [0]

    def rewrite(fn, st, call_next, make_tail):
        if not (isinstance(call_next, ast.Call) and isinstance(call_next.func, ast.Name) and call_next.func.id == "next" and len(call_next.args) == 1 and not call_next.keywords and isinstance(call_next.args[0], ast.GeneratorExp)):
            return None
        g = call_next.args[0]
        if len(g.generators) != 1 or g.generators[0].is_async:
            return None
        comp = g.generators[0]
        it = comp.iter
        if not (isinstance(it, ast.Call) and isinstance(it.func, ast.Name) and it.func.id in gens and not it.keywords and not any(isinstance(x, ast.Starred) for x in it.args)):
            return None
        params, val, updates = gens[it.func.id]
        if len(it.args) != len(params) or not all(_simple(x) for x in it.args):
            return None
        same = all(isinstance(x, ast.Name) and x.id == p_ for x, p_ in zip(it.args, params))
        pre = []
        ren = {}
        if not same:
            count[0] += 1
            ren = {p_: ast.Name(id="%s_it%d" % (p_, count[0]), ctx=ast.Load()) for p_ in params}
            for p_, x in zip(params, it.args):
                pre.append(ast.copy_location(ast.Assign(targets=[ast.Name(id=ren[p_].id, ctx=ast.Store())], value=copy.deepcopy(x), type_comment=None), st))

        class _R(ast.NodeTransformer):
            def visit_Name(self_, n):
                if n.id in ren:
                    return ast.copy_location(ast.Name(id=ren[n.id].id, ctx=n.ctx), n)
                return n

        val2 = _R().visit(copy.deepcopy(val))
        m = {}
        if not Unroller.bind(comp.target, val2, m):
            return None
        conds = [_Subst(m).visit(copy.deepcopy(c)) for c in comp.ifs]
        if not conds:
            return None
        pred = conds[0] if len(conds) == 1 else ast.BoolOp(op=ast.And(), values=conds)
        # while not P: a double negation is dropped
        test = pred.operand if isinstance(pred, ast.UnaryOp) and isinstance(pred.op, ast.Not) else ast.UnaryOp(op=ast.Not(), operand=pred)
        loop = ast.copy_location(ast.While(test=test, body=[_R().visit(copy.deepcopy(u)) for u in updates] or [ast.Pass()], orelse=[]), st)
        result = _Subst(m).visit(copy.deepcopy(g.elt))
        tail = make_tail(result)
        count[0] += 1
        return [ast.fix_missing_locations(x) for x in pre + [loop] + tail]

    for fn in [x for x in ast.walk(tree) if isinstance(x, ast.FunctionDef)]:
        new_body = []
        changed = False
        for st in fn.body:
            out = None
            if isinstance(st, ast.Return) and st.value is not None:
                out = rewrite(fn, st, st.value, lambda r, st=st: [ast.copy_location(ast.Return(value=r), st)])
            elif isinstance(st, ast.Assign) and len(st.targets) == 1:
                def tail(r, st=st):
                    if ast.unparse(r) == ast.unparse(st.targets[0]) or (isinstance(r, ast.Tuple) and isinstance(st.targets[0], ast.Tuple) and [ast.unparse(x) for x in r.elts] == [ast.unparse(x) for x in st.targets[0].elts]):
                        return []  # the state is already held by the variables it is assigned to
                    return [ast.copy_location(ast.Assign(targets=st.targets, value=r, type_comment=None), st)]

                out = rewrite(fn, st, st.value, tail)
            if out is None:
                new_body.append(st)
            else:
                new_body += out
                changed = True
        if changed:
            fn.body = new_body
    return count[0]


def _flatten_private_bases(tree):
    """A class deriving from a *private* class of the same module (`class _Shared: ..; class A(_Shared): ..` — shared
    code pulled into a base class or mixin) is given copies of the methods, properties and class constants it inherits
    and does not override, as attribute look-up would find them; in the copies `cls.X` / `self.X` / `type(self).X` is
    replaced by the constant the class binds X to when X is a class-level constant that is never assigned through an
    instance or the class.  The base class and the inheritance stay as they are.  Methods using `super()` are not
    copied."""
    classes = {st.name: st for st in tree.body if isinstance(st, ast.ClassDef)}
    assigned_attrs = {n.attr for n in ast.walk(tree) if isinstance(n, ast.Attribute) and isinstance(n.ctx, (ast.Store, ast.Del))}
    count = 0

    def own_names(c):
        out = set()
        for st in c.body:
            if isinstance(st, (ast.FunctionDef, ast.AsyncFunctionDef)):
                out.add(st.name)
            elif isinstance(st, ast.Assign):
                out |= {t.id for t in st.targets if isinstance(t, ast.Name)}
            elif isinstance(st, ast.AnnAssign) and isinstance(st.target, ast.Name):
                out.add(st.target.id)
        return out

    def constants(c):
        out = {}
        for st in c.body:
            ok_val = lambda v: v is not None and _simple(v) and not any(isinstance(n, (ast.Lambda, ast.Call)) for n in ast.walk(v))
            if isinstance(st, ast.Assign) and len(st.targets) == 1 and isinstance(st.targets[0], ast.Name) and ok_val(st.value):
                out[st.targets[0].id] = st.value
            elif isinstance(st, ast.AnnAssign) and isinstance(st.target, ast.Name) and ok_val(st.value):
                out[st.target.id] = st.value
        return out

    done = set()
    for _round in range(4):
        changed = False
        for c in list(classes.values()):
            for b in c.bases:
                if not (isinstance(b, ast.Name) and b.id.startswith("_") and not b.id.startswith("__") and b.id in classes and b.id != c.name) or (c.name, b.id) in done:
                    continue
                base = classes[b.id]
                # a private base that itself derives from a private base is flattened first
                if any(isinstance(bb, ast.Name) and bb.id.startswith("_") and bb.id in classes and (base.name, bb.id) not in done for bb in base.bases):
                    continue
                done.add((c.name, b.id))
                have = own_names(c)
                added = []
                for st in base.body:
                    if isinstance(st, (ast.FunctionDef, ast.AsyncFunctionDef)):
                        if st.name in have or any(isinstance(n, ast.Call) and isinstance(n.func, ast.Name) and n.func.id == "super" for n in ast.walk(st)):
                            continue
                        added.append(copy.deepcopy(st))
                    elif isinstance(st, ast.Assign) and all(isinstance(t, ast.Name) and t.id not in have for t in st.targets):
                        added.append(copy.deepcopy(st))
                    elif isinstance(st, ast.AnnAssign) and isinstance(st.target, ast.Name) and st.target.id not in have and st.value is not None:
                        added.append(copy.deepcopy(st))
                if not added:
                    continue
                c.body = c.body + added
                consts = {k: v for k, v in constants(c).items() if k not in assigned_attrs}

                class _K(ast.NodeTransformer):
                    def visit_Attribute(self_, n):
                        self_.generic_visit(n)
                        if isinstance(n.ctx, ast.Load) and n.attr in consts:
                            v = n.value
                            if (isinstance(v, ast.Name) and v.id in ("self", "cls", c.name)) or (isinstance(v, ast.Call) and ast.unparse(v) == "type(self)"):
                                return ast.copy_location(copy.deepcopy(consts[n.attr]), n)
                        return n

                for st in added:
                    if isinstance(st, (ast.FunctionDef, ast.AsyncFunctionDef)):
                        _K().visit(st)
                count += 1
                changed = True
        if not changed:
            break
    return count


def _attrgetters(tree):
    """G = operator.attrgetter("a", "b") bound once at module level: G(x) -> (x.a, x.b)  (one name: x.a);
    operator.eq(*(a, b)) / operator.eq(a, b) -> a == b (likewise ne, is_, is_not)."""
    getters = {}
    seen = {}
    for st in tree.body:
        if isinstance(st, ast.Assign) and len(st.targets) == 1 and isinstance(st.targets[0], ast.Name):
            seen[st.targets[0].id] = seen.get(st.targets[0].id, 0) + 1
            v = st.value
            if isinstance(v, ast.Call) and ast.unparse(v.func) in ("operator.attrgetter", "attrgetter") and v.args and not v.keywords and all(isinstance(a, ast.Constant) and isinstance(a.value, str) and all(p_.isidentifier() for p_ in a.value.split(".")) for a in v.args):
                getters[st.targets[0].id] = [a.value for a in v.args]
    getters = {k: v for k, v in getters.items() if seen.get(k) == 1}
    ops = {"eq": ast.Eq, "ne": ast.NotEq, "is_": ast.Is, "is_not": ast.IsNot, "lt": ast.Lt, "le": ast.LtE, "gt": ast.Gt, "ge": ast.GtE}
    binops = {"add": ast.Add, "sub": ast.Sub, "mul": ast.Mult, "truediv": ast.Div, "floordiv": ast.FloorDiv, "mod": ast.Mod, "pow": ast.Pow}
    count = [0]

    def chain(base, dotted):
        e = base
        for p_ in dotted.split("."):
            e = ast.Attribute(value=e, attr=p_, ctx=ast.Load())
        return e

    class _G(ast.NodeTransformer):
        def visit_Call(self, node):
            self.generic_visit(node)
            f = node.func
            if isinstance(f, ast.Name) and f.id in getters and len(node.args) == 1 and not node.keywords and _simple(node.args[0]):
                names = getters[f.id]
                count[0] += 1
                if len(names) == 1:
                    return ast.copy_location(chain(copy.deepcopy(node.args[0]), names[0]), node)
                return ast.copy_location(ast.Tuple(elts=[chain(copy.deepcopy(node.args[0]), n_) for n_ in names], ctx=ast.Load()), node)
            # methodcaller("m", a..)(x) -> x.m(a..) ; map(methodcaller("m", a..), it) -> (v.m(a..) for v in it)
            def is_mc(e):
                return isinstance(e, ast.Call) and ast.unparse(e.func) in ("operator.methodcaller", "methodcaller") and e.args and isinstance(e.args[0], ast.Constant) and isinstance(e.args[0].value, str) and e.args[0].value.isidentifier() and not any(isinstance(a, ast.Starred) for a in e.args) and all(_simple(a) for a in e.args[1:]) and all(k.arg and _simple(k.value) for k in e.keywords)

            def mc_apply(mc, obj):
                return ast.Call(func=ast.Attribute(value=obj, attr=mc.args[0].value, ctx=ast.Load()), args=[copy.deepcopy(a) for a in mc.args[1:]], keywords=[copy.deepcopy(k) for k in mc.keywords])

            if is_mc(f) and len(node.args) == 1 and not node.keywords and not isinstance(node.args[0], ast.Starred):
                count[0] += 1
                return ast.copy_location(mc_apply(f, node.args[0]), node)
            if isinstance(f, ast.Name) and f.id == "map" and len(node.args) == 2 and not node.keywords and is_mc(node.args[0]):
                count[0] += 1
                var = "_mc%d" % count[0]
                gen = ast.GeneratorExp(elt=mc_apply(node.args[0], ast.Name(id=var, ctx=ast.Load())), generators=[ast.comprehension(target=ast.Name(id=var, ctx=ast.Store()), iter=node.args[1], ifs=[], is_async=0)])
                return ast.fix_missing_locations(ast.copy_location(gen, node))
            nm = ast.unparse(f)
            if nm.startswith("operator.") and nm.split(".", 1)[1] in ops and not node.keywords:
                args = node.args
                if len(args) == 1 and isinstance(args[0], ast.Starred) and isinstance(args[0].value, (ast.Tuple, ast.List)) and len(args[0].value.elts) == 2:
                    args = args[0].value.elts
                if len(args) == 2 and not any(isinstance(a, ast.Starred) for a in args):
                    count[0] += 1
                    return ast.copy_location(ast.Compare(left=args[0], ops=[ops[nm.split(".", 1)[1]]()], comparators=[args[1]]), node)
            if nm.startswith("operator.") and nm.split(".", 1)[1] in binops and not node.keywords and len(node.args) == 2 and not any(isinstance(a, ast.Starred) for a in node.args):
                count[0] += 1
                return ast.copy_location(ast.BinOp(left=node.args[0], op=binops[nm.split(".", 1)[1]](), right=node.args[1]), node)
            return node

    # name = methodcaller("m", a..) bound to a local: the function `lambda o: o.m(a..)` (applied where it is called by the
    # pass that applies single-assigned local lambdas)
    for fdef in [n for n in ast.walk(tree) if isinstance(n, (ast.FunctionDef, ast.AsyncFunctionDef))]:
        for st in ast.walk(fdef):
            if isinstance(st, ast.Assign) and len(st.targets) == 1 and isinstance(st.targets[0], ast.Name):
                v = st.value
                if isinstance(v, ast.Call) and ast.unparse(v.func) in ("operator.methodcaller", "methodcaller") and v.args and isinstance(v.args[0], ast.Constant) and isinstance(v.args[0].value, str) and v.args[0].value.isidentifier() and not any(isinstance(a, ast.Starred) for a in v.args) and all(_simple(a) for a in v.args[1:]) and all(k.arg and _simple(k.value) for k in v.keywords):
                    count[0] += 1
                    par = "_receiver%d" % count[0]
                    body = ast.Call(func=ast.Attribute(value=ast.Name(id=par, ctx=ast.Load()), attr=v.args[0].value, ctx=ast.Load()), args=list(v.args[1:]), keywords=list(v.keywords))
                    st.value = ast.fix_missing_locations(ast.copy_location(ast.Lambda(args=ast.arguments(posonlyargs=[], args=[ast.arg(arg=par)], vararg=None, kwonlyargs=[], kw_defaults=[], kwarg=None, defaults=[]), body=body), v))
    _G().visit(tree)
    return count[0]


def _closure_factories(tree):
    """def make(a, b): def f(x): return E; return f   is a lambda factory: make(p, q) -> (lambda x: E[a := p, b := q]).
    Then  v = <lambda>  bound once in a function and used as  set(map(v, it)) / list(map(v, it)) / v(arg)  is applied:
    {E[x := y] for y in it} / [..] / E[x := arg]."""
    facts = {}
    for st in tree.body:
        if not (isinstance(st, ast.FunctionDef) and not st.decorator_list):
            continue
        a = st.args
        if a.vararg or a.kwarg or a.kwonlyargs or a.posonlyargs or a.defaults:
            continue
        body = [x for x in st.body if not (isinstance(x, ast.Expr) and isinstance(x.value, ast.Constant))]
        if len(body) == 2 and isinstance(body[0], ast.FunctionDef) and isinstance(body[1], ast.Return) and isinstance(body[1].value, ast.Name) and body[1].value.id == body[0].name and not body[0].decorator_list:
            inner = body[0]
            ia = inner.args
            if ia.vararg or ia.kwarg or ia.kwonlyargs or ia.posonlyargs or ia.defaults:
                continue
            ib = [x for x in inner.body if not (isinstance(x, ast.Expr) and isinstance(x.value, ast.Constant))]
            if len(ib) == 1 and isinstance(ib[0], ast.Return) and ib[0].value is not None and not any(isinstance(n, (ast.Lambda, ast.Yield, ast.NamedExpr)) for n in ast.walk(ib[0].value)):
                facts[st.name] = ([p.arg for p in a.args], ia, ib[0].value)
    count = [0]

    class _F(ast.NodeTransformer):
        def visit_Call(self, node):
            self.generic_visit(node)
            if isinstance(node.func, ast.Name) and node.func.id in facts and not node.keywords and not any(isinstance(x, ast.Starred) for x in node.args):
                params, ia, expr = facts[node.func.id]
                if len(node.args) == len(params) and all(_simple(x) for x in node.args):
                    count[0] += 1
                    return ast.copy_location(ast.Lambda(args=copy.deepcopy(ia), body=_Subst(dict(zip(params, node.args))).visit(copy.deepcopy(expr))), node)
            return node

    if facts:
        _F().visit(tree)
    # apply lambdas bound once to a local
    for fn in [n for n in ast.walk(tree) if isinstance(n, ast.FunctionDef)]:
        stores = {}
        for n in ast.walk(fn):
            if isinstance(n, ast.Name) and isinstance(n.ctx, ast.Store):
                stores[n.id] = stores.get(n.id, 0) + 1
        lams = {}
        for st in fn.body:
            if isinstance(st, ast.Assign) and len(st.targets) == 1 and isinstance(st.targets[0], ast.Name) and isinstance(st.value, ast.Lambda) and stores.get(st.targets[0].id) == 1 and _simple(st.value):
                free = {n.id for n in ast.walk(st.value.body) if isinstance(n, ast.Name)} - {a.arg for a in st.value.args.args}
                if not any(stores.get(x) for x in free if x != st.targets[0].id and stores.get(x, 0) > 1):
                    lams[st.targets[0].id] = st.value
        if not lams and not any(isinstance(n, ast.Lambda) for n in ast.walk(fn)):
            continue

        class _A(ast.NodeTransformer):
            def visit_Call(self, node):
                self.generic_visit(node)
                f = node.func
                if isinstance(f, ast.Name) and f.id in lams and not node.keywords:
                    new = _Beta().visit(ast.copy_location(ast.Call(func=copy.deepcopy(lams[f.id]), args=node.args, keywords=[]), node))
                    if not (isinstance(new, ast.Call) and isinstance(new.func, ast.Lambda)):
                        count[0] += 1
                        return new
                if isinstance(f, ast.Name) and f.id in ("set", "list", "tuple") and len(node.args) == 1 and not node.keywords and isinstance(node.args[0], ast.Call) and isinstance(node.args[0].func, ast.Name) and node.args[0].func.id == "map" and len(node.args[0].args) == 2 and not node.args[0].keywords:
                    g, it = node.args[0].args
                    lam = lams.get(g.id) if isinstance(g, ast.Name) else g if isinstance(g, ast.Lambda) and _simple(g) else None
                    if lam is not None and len(lam.args.args) == 1:
                        count[0] += 1
                        v = "_mapped_%d" % count[0]
                        elt = _Subst({lam.args.args[0].arg: ast.Name(id=v, ctx=ast.Load())}).visit(copy.deepcopy(lam.body))
                        comp = [ast.comprehension(target=ast.Name(id=v, ctx=ast.Store()), iter=it, ifs=[], is_async=0)]
                        new = ast.SetComp(elt=elt, generators=comp) if f.id == "set" else ast.ListComp(elt=elt, generators=comp)
                        if f.id == "tuple":
                            new = ast.Call(func=ast.Name(id="tuple", ctx=ast.Load()), args=[new], keywords=[])
                        return ast.fix_missing_locations(ast.copy_location(new, node))
                return node

        _A().visit(fn)
    return count[0]


def _inline_local_procedures(tree):
    """A function defined inside a function whose body is straight-line statements ending in `return <name or simple
    expression>` (a small builder: make an object, fill it, hand it out), called as the whole value of an assignment /
    the single argument of a call statement / a return, with simple arguments: the call is replaced by the function's
    statements (its locals renamed apart, parameters replaced by the arguments) followed by the statement with the
    returned value in place of the call."""
    count = [0]
    for outer in [n for n in ast.walk(tree) if isinstance(n, ast.FunctionDef)]:
        procs = {}
        for st in outer.body:
            if not (isinstance(st, ast.FunctionDef) and not st.decorator_list):
                continue
            a = st.args
            if a.vararg or a.kwarg or a.kwonlyargs or a.posonlyargs or a.defaults:
                continue
            body = [x for x in st.body if not (isinstance(x, ast.Expr) and isinstance(x.value, ast.Constant))]
            if len(body) < 2 or not isinstance(body[-1], ast.Return) or body[-1].value is None or not _simple(body[-1].value):
                continue
            if not all(isinstance(x, (ast.Assign, ast.AnnAssign, ast.AugAssign, ast.Expr)) for x in body[:-1]):
                continue
            if any(isinstance(n, (ast.Yield, ast.YieldFrom, ast.Return, ast.Lambda, ast.NamedExpr)) for x in body[:-1] for n in ast.walk(x)):
                continue
            if any(isinstance(n, ast.Name) and n.id == st.name for x in body for n in ast.walk(x)):
                continue
            procs[st.name] = ([p.arg for p in a.args], body)
        if not procs:
            continue

        def expand(stmt, call):
            params, body = procs[call.func.id]
            if call.keywords or len(call.args) != len(params) or not all(_simple(x) for x in call.args):
                return None
            count[0] += 1
            locals_ = {n.id for x in body for n in ast.walk(x) if isinstance(n, ast.Name) and isinstance(n.ctx, ast.Store)} - set(params)
            ren = {v: "%s_p%d" % (v, count[0]) for v in locals_}

            class _R(ast.NodeTransformer):
                def visit_Name(self, n):
                    if n.id in ren:
                        return ast.copy_location(ast.Name(id=ren[n.id], ctx=n.ctx), n)
                    if n.id in params and isinstance(n.ctx, ast.Load):
                        return ast.copy_location(copy.deepcopy(call.args[params.index(n.id)]), n)
                    return n

            pre = [_R().visit(copy.deepcopy(x)) for x in body[:-1]]
            result = _R().visit(copy.deepcopy(body[-1].value))
            return pre, result

        def rewrite(stmts):
            out = []
            for st in stmts:
                for fld in ("body", "orelse", "finalbody"):
                    sub = getattr(st, fld, None)
                    if isinstance(sub, list) and sub and isinstance(sub[0], ast.stmt) and not isinstance(st, (ast.FunctionDef, ast.ClassDef)):
                        setattr(st, fld, rewrite(sub))
                site = None
                if isinstance(st, (ast.Assign, ast.Return)) and isinstance(st.value, ast.Call):
                    site = ("value", st.value)
                elif isinstance(st, ast.Expr) and isinstance(st.value, ast.Call) and len(st.value.args) == 1 and not st.value.keywords and isinstance(st.value.args[0], ast.Call):
                    site = ("arg", st.value.args[0])
                if site is not None and isinstance(site[1].func, ast.Name) and site[1].func.id in procs:
                    got = expand(st, site[1])
                    if got is not None:
                        pre, result = got
                        if site[0] == "value":
                            st.value = result
                        else:
                            st.value.args[0] = result
                        out += [ast.fix_missing_locations(ast.copy_location(p_, st)) for p_ in pre]
                out.append(st)
            return out

        outer.body = rewrite(outer.body)
        for name in list(procs):
            if not any(isinstance(n, ast.Name) and n.id == name and isinstance(n.ctx, ast.Load) for x in outer.body if not (isinstance(x, ast.FunctionDef) and x.name == name) for n in ast.walk(x)):
                outer.body = [x for x in outer.body if not (isinstance(x, ast.FunctionDef) and x.name == name)] or [ast.Pass()]
    return count[0]


def _specialise_template_methods(tree):
    """A class that overrides a *private* method which an inherited method of a base class of the same module calls
    through `self` (template method with hooks) is given a copy of that inherited method, as attribute look-up would
    find it; the copy then resolves its hooks in the class it stands in.  Methods using `super()` or name-mangled
    attributes are not copied."""
    classes = {st.name: st for st in tree.body if isinstance(st, ast.ClassDef)}
    count = 0

    def methods(c):
        return {st.name: st for st in c.body if isinstance(st, ast.FunctionDef)}

    def lineage(c, seen=()):
        out = []
        for b in c.bases:
            if isinstance(b, ast.Name) and b.id in classes and b.id != c.name and b.id not in seen:
                out.append(classes[b.id])
                out += lineage(classes[b.id], seen + (c.name,))
        return out

    for c in list(classes.values()):
        bases = lineage(c)
        if len([b for b in c.bases if isinstance(b, ast.Name) and b.id in classes]) != 1 or len(c.bases) != 1:
            continue  # single inheritance inside the module only: the look-up order is the chain
        own = methods(c)
        hooks = {n for n in own if n.startswith("_") and not n.startswith("__")}
        if not hooks:
            continue
        seen = set(own) | {t.id for st in c.body if isinstance(st, ast.Assign) for t in st.targets if isinstance(t, ast.Name)}
        added = []
        for b in bases:
            if len(b.bases) > 1:
                break
            for name, m in methods(b).items():
                if name in seen:
                    continue
                seen.add(name)
                if name.startswith("__") and name.endswith("__") and name in ("__init__", "__new__", "__init_subclass__"):
                    continue
                if any(isinstance(n, ast.Name) and n.id in ("super", "__class__") for n in ast.walk(m)):
                    continue
                if any(isinstance(n, ast.Attribute) and n.attr.startswith("__") and not n.attr.endswith("__") for n in ast.walk(m)):
                    continue
                selfname = m.args.args[0].arg if m.args.args and not any(ast.unparse(d) == "staticmethod" for d in m.decorator_list) else None
                if selfname is None:
                    continue
                used = {n.attr for n in ast.walk(m) if isinstance(n, ast.Attribute) and isinstance(n.value, ast.Name) and n.value.id == selfname and isinstance(n.ctx, ast.Load)}
                if used & hooks & set(methods(b)) or any((used & hooks) & set(methods(bb)) for bb in bases):
                    added.append(copy.deepcopy(m))
        if added:
            c.body = c.body + added
            count += len(added)
    return count


def _apply_chosen_callable(tree):
    """`f = A if c else B` directly followed by a statement that calls f(args) once with simple arguments (f a local
    that is not used otherwise): the choice is made at the call — `A(args) if c else B(args)`."""
    count = [0]
    for fn in [n for n in ast.walk(tree) if isinstance(n, (ast.FunctionDef, ast.AsyncFunctionDef))]:
        loads = {}
        stores = {}
        for n in ast.walk(fn):
            if isinstance(n, ast.Name):
                (stores if isinstance(n.ctx, (ast.Store, ast.Del)) else loads).setdefault(n.id, []).append(n)

        def rewrite(stmts):
            i = 0
            while i + 1 < len(stmts):
                st, nx = stmts[i], stmts[i + 1]
                if isinstance(st, ast.Assign) and len(st.targets) == 1 and isinstance(st.targets[0], ast.Name) and isinstance(st.value, ast.IfExp) and _simple(st.value.body) and _simple(st.value.orelse):
                    name = st.targets[0].id
                    if len(stores.get(name, [])) == 1 and len(loads.get(name, [])) == 1 and isinstance(nx, (ast.Return, ast.Assign, ast.Expr)):
                        calls = [n for n in ast.walk(nx) if isinstance(n, ast.Call) and isinstance(n.func, ast.Name) and n.func.id == name]
                        top = nx.value
                        if len(calls) == 1 and calls[0] is top and all(_simple(a) for a in top.args) and all(k.arg and _simple(k.value) for k in top.keywords) and not any(isinstance(a, ast.Name) and a.id == name for a in top.args):
                            mk = lambda f: ast.Call(func=copy.deepcopy(f), args=copy.deepcopy(top.args), keywords=copy.deepcopy(top.keywords))
                            nx.value = ast.copy_location(ast.IfExp(test=st.value.test, body=mk(st.value.body), orelse=mk(st.value.orelse)), top)
                            ast.fix_missing_locations(nx)
                            del stmts[i]
                            count[0] += 1
                            continue
                i += 1
            for st in stmts:
                for fld in ("body", "orelse", "finalbody"):
                    sub = getattr(st, fld, None)
                    if isinstance(sub, list) and sub and isinstance(sub[0], ast.stmt) and not isinstance(st, (ast.FunctionDef, ast.AsyncFunctionDef, ast.ClassDef)):
                        rewrite(sub)

        rewrite(fn.body)
    return count[0]


CLASS_ANCESTORS = {}  # short class name -> short names of all its ancestors in the package (filled by the loader)


def _ancestors_of(type_expr):
    """names of the classes a class named by `type_expr` derives from, as far as known (builtins exactly, classes of
    the package by short name; anything else: object only)"""
    import builtins

    name = type_expr.attr if isinstance(type_expr, ast.Attribute) else type_expr.id if isinstance(type_expr, ast.Name) else None
    if name is None:
        return None
    if isinstance(type_expr, ast.Name) and isinstance(getattr(builtins, name, None), type) and name not in CLASS_ANCESTORS:
        return {c.__name__ for c in getattr(builtins, name).__mro__[1:]}
    return set(CLASS_ANCESTORS.get(name, ())) | {"object"}


def _module_instances(tree):
    """`NAME = C(args)` at module or class level, C a class of the same module whose constructor only stores its
    parameters (`self._x = x`) and whose instances are never changed afterwards, is a bundle of functions closed over
    the constructor arguments: for every method M of C a module function `NAME__M` is synthesised (its `self._x` the
    argument expression, `self(..)` / `self.m(..)` the sibling functions, class constants their values) and
    `NAME(..)` / `NAME.M(..)` (`self.NAME(..)` for a class-level instance) call those."""
    classes = {st.name: st for st in tree.body if isinstance(st, ast.ClassDef)}
    if not classes:
        return 0

    def ctor_shape(c):
        """{attribute: parameter} when the class qualifies"""
        if c.bases or c.decorator_list or c.keywords:
            return None
        init = None
        for st in c.body:
            if isinstance(st, ast.FunctionDef):
                if st.decorator_list and [ast.unparse(d) for d in st.decorator_list] not in (["staticmethod"], ["classmethod"]):
                    return None
                if st.name == "__init__":
                    init = st
        stores = {}
        params = []
        if init is not None:
            a = init.args
            if a.vararg or a.kwarg or a.kwonlyargs or a.posonlyargs or a.defaults or not a.args:
                return None
            me = a.args[0].arg
            params = [x.arg for x in a.args[1:]]
            for st in init.body:
                if isinstance(st, ast.Expr) and isinstance(st.value, ast.Constant):
                    continue
                if isinstance(st, ast.Assign) and len(st.targets) == 1 and isinstance(st.targets[0], ast.Attribute) and isinstance(st.targets[0].value, ast.Name) and st.targets[0].value.id == me and isinstance(st.value, ast.Name) and st.value.id in params and st.targets[0].attr not in stores:
                    stores[st.targets[0].attr] = st.value.id
                    continue
                return None
        # nothing else writes an attribute of an instance
        for st in c.body:
            if isinstance(st, ast.FunctionDef) and st is not init:
                for n in ast.walk(st):
                    if isinstance(n, ast.Attribute) and isinstance(n.ctx, (ast.Store, ast.Del)) and isinstance(n.value, ast.Name) and st.args.args and n.value.id == st.args.args[0].arg:
                        return None
                    if isinstance(n, ast.Name) and n.id in ("super", "__class__"):
                        return None
        return params, stores

    def const_of(c, name):
        for st in c.body:
            if isinstance(st, ast.Assign) and len(st.targets) == 1 and isinstance(st.targets[0], ast.Name) and st.targets[0].id == name:
                return st.value
            if isinstance(st, ast.AnnAssign) and isinstance(st.target, ast.Name) and st.target.id == name and st.value is not None:
                return st.value
        return None

    def inert(e):
        return isinstance(e, (ast.Name, ast.Constant, ast.Lambda)) or (isinstance(e, ast.Attribute) and inert(e.value))

    insts = []  # (holder class or None, name, class def, {param: arg})
    for holder in [None] + [c for c in tree.body if isinstance(c, ast.ClassDef)]:
        for st in (tree.body if holder is None else holder.body):
            tgt = st.targets[0] if isinstance(st, ast.Assign) and len(st.targets) == 1 else st.target if isinstance(st, ast.AnnAssign) and st.value is not None else None
            v = getattr(st, "value", None)
            if not (isinstance(tgt, ast.Name) and isinstance(v, ast.Call) and isinstance(v.func, ast.Name) and v.func.id in classes) or v.keywords and any(k.arg is None for k in v.keywords):
                continue
            c = classes[v.func.id]
            if c is holder:
                continue
            shape = ctor_shape(c)
            if shape is None or any(isinstance(a, ast.Starred) for a in v.args) or not all(inert(a) for a in list(v.args) + [k.value for k in v.keywords]):
                continue
            params, stores = shape
            bound = dict(zip(params, v.args))
            for k in v.keywords:
                if k.arg in params and k.arg not in bound:
                    bound[k.arg] = k.value
            if set(bound) != set(params):
                continue
            # the name is bound once
            n_bind = sum(1 for n in ast.walk(tree) if isinstance(n, ast.Name) and n.id == tgt.id and isinstance(n.ctx, (ast.Store, ast.Del)))
            n_attr = sum(1 for n in ast.walk(tree) if isinstance(n, ast.Attribute) and n.attr == tgt.id and isinstance(n.ctx, (ast.Store, ast.Del)))
            if n_bind != 1 or n_attr:
                continue
            insts.append((holder, tgt.id, c, {a: bound[p_] for a, p_ in stores.items()}))
    if not insts:
        return 0
    taken = {st.name for st in tree.body if isinstance(st, (ast.FunctionDef, ast.ClassDef))}
    new_funcs = []
    for holder, name, c, attrs in insts:
        prefix = ("_%s_%s" % (holder.name.lstrip("_"), name.lstrip("_"))) if holder is not None else name
        methods = {st.name: st for st in c.body if isinstance(st, ast.FunctionDef) and st.name != "__init__"}
        fname = {m: "%s__%s" % (prefix, m.strip("_")) for m in methods}
        if any(f in taken for f in fname.values()):
            continue
        taken |= set(fname.values())
        for mname, m in methods.items():
            decos = [ast.unparse(d) for d in m.decorator_list]
            f = copy.deepcopy(m)
            f.decorator_list = []
            f.name = fname[mname]
            me = None
            if decos != ["staticmethod"]:
                if not f.args.args:
                    continue
                me = f.args.args[0].arg
                f.args.args = f.args.args[1:]
            is_cls = decos == ["classmethod"]

            class _S(ast.NodeTransformer):
                def visit_Call(self, n):
                    self.generic_visit(n)
                    fn_ = n.func
                    if me is not None and not is_cls and isinstance(fn_, ast.Name) and fn_.id == me and "__call__" in methods:
                        n.func = ast.copy_location(ast.Name(id=fname["__call__"], ctx=ast.Load()), fn_)
                    return n

                def visit_Attribute(self, n):
                    self.generic_visit(n)
                    if me is not None and isinstance(n.value, ast.Name) and n.value.id == me and isinstance(n.ctx, ast.Load):
                        if not is_cls and n.attr in attrs:
                            return ast.copy_location(copy.deepcopy(attrs[n.attr]), n)
                        if n.attr in methods:
                            return ast.copy_location(ast.Name(id=fname[n.attr], ctx=ast.Load()), n)
                        cv = const_of(c, n.attr)
                        if cv is not None:
                            return ast.copy_location(ast.Attribute(value=ast.Name(id=c.name, ctx=ast.Load()), attr=n.attr, ctx=ast.Load()), n)
                    return n

            f = _S().visit(f)
            if me is not None and any(isinstance(n, ast.Name) and n.id == me for n in ast.walk(f)):
                fname[mname] = None  # the instance itself escapes: this method stays as it is
                continue
            f = _Beta().visit(f)
            new_funcs.append((c, ast.fix_missing_locations(f)))
        live = {m: f for m, f in fname.items() if f}

        class _U(ast.NodeTransformer):
            def visit_Call(self, n):
                self.generic_visit(n)
                fn_ = n.func

                def is_inst(e):
                    if holder is None:
                        return isinstance(e, ast.Name) and e.id == name
                    return isinstance(e, ast.Attribute) and e.attr == name and isinstance(e.value, ast.Name) and e.value.id in ("self", "cls", holder.name)

                if is_inst(fn_) and live.get("__call__"):
                    n.func = ast.copy_location(ast.Name(id=live["__call__"], ctx=ast.Load()), fn_)
                elif isinstance(fn_, ast.Attribute) and is_inst(fn_.value) and live.get(fn_.attr):
                    n.func = ast.copy_location(ast.Name(id=live[fn_.attr], ctx=ast.Load()), fn_)
                return n

            def visit_Name(self, n):
                # the instance handed on as a value (map(NAME, ..), key=NAME): all one can do with it is call it
                if holder is None and n.id == name and isinstance(n.ctx, ast.Load) and live.get("__call__") and not getattr(n, "_is_attr_base", False):
                    return ast.copy_location(ast.Name(id=live["__call__"], ctx=ast.Load()), n)
                return n

            def visit_Attribute(self, n):
                if isinstance(n.value, ast.Name):
                    n.value._is_attr_base = True
                self.generic_visit(n)
                return n

        for st in tree.body:
            if st is not c and not (isinstance(st, (ast.Assign, ast.AnnAssign)) and isinstance(getattr(st, "value", None), ast.Call) and isinstance(st.value.func, ast.Name) and st.value.func.id == c.name):
                _U().visit(st)
        for _c, f in new_funcs:
            _U().visit(f)
    # the synthesised functions stand right after the class they come from
    out = []
    for st in tree.body:
        out.append(st)
        out += [f for c_, f in new_funcs if c_ is st]
    tree.body = out
    return len(new_funcs)


def _iter_protocol(tree):
    """inside a class whose `__iter__` is `return iter(self.X)` (the object iterates over one of its attributes), a loop
    or comprehension over `self` in another method of that class iterates over `self.X`"""
    count = [0]
    for c in [n for n in tree.body if isinstance(n, ast.ClassDef)]:
        it = next((st for st in c.body if isinstance(st, ast.FunctionDef) and st.name == "__iter__" and not st.decorator_list), None)
        if it is None or not it.args.args:
            continue
        me = it.args.args[0].arg
        body = [x for x in it.body if not (isinstance(x, ast.Expr) and isinstance(x.value, ast.Constant))]
        if len(body) != 1 or not isinstance(body[0], ast.Return):
            continue
        v = body[0].value
        if not (isinstance(v, ast.Call) and isinstance(v.func, ast.Name) and v.func.id == "iter" and len(v.args) == 1 and not v.keywords and isinstance(v.args[0], ast.Attribute) and isinstance(v.args[0].value, ast.Name) and v.args[0].value.id == me):
            continue
        attr = v.args[0].attr
        for m in c.body:
            if not isinstance(m, ast.FunctionDef) or m is it or not m.args.args or any(ast.unparse(d) == "staticmethod" for d in m.decorator_list):
                continue
            recv = m.args.args[0].arg
            for n in ast.walk(m):
                if isinstance(n, ast.For) and isinstance(n.iter, ast.Name) and n.iter.id == recv:
                    n.iter = ast.copy_location(ast.Attribute(value=ast.Name(id=recv, ctx=ast.Load()), attr=attr, ctx=ast.Load()), n.iter)
                    count[0] += 1
                elif isinstance(n, ast.comprehension) and isinstance(n.iter, ast.Name) and n.iter.id == recv:
                    n.iter = ast.Attribute(value=ast.Name(id=recv, ctx=ast.Load()), attr=attr, ctx=ast.Load())
                    count[0] += 1
    if count[0]:
        ast.fix_missing_locations(tree)
    return count[0]


def _partial_methods(tree):
    """`NAME = functools.partialmethod(H, fixed.., k=v..)` in a class body, H a method of that class: the method it
    stands for — `def NAME(self, <the remaining parameters of H>): return self.H(fixed.., <remaining>, k=v..)`"""
    count = 0
    for c in [n for n in tree.body if isinstance(n, ast.ClassDef)]:
        methods = {st.name: st for st in c.body if isinstance(st, ast.FunctionDef)}
        out = []
        for st in c.body:
            v = getattr(st, "value", None)
            tgt = st.targets[0] if isinstance(st, ast.Assign) and len(st.targets) == 1 else st.target if isinstance(st, ast.AnnAssign) else None
            if isinstance(tgt, ast.Name) and isinstance(v, ast.Call) and ast.unparse(v.func) in ("functools.partialmethod", "partialmethod") and v.args and isinstance(v.args[0], ast.Name) and v.args[0].id in methods and not any(isinstance(a, ast.Starred) for a in v.args) and all(k.arg for k in v.keywords):
                h = methods[v.args[0].id]
                a = h.args
                if not (a.vararg or a.kwarg or a.kwonlyargs or a.posonlyargs or h.decorator_list) and a.args and all(_simple(x) for x in v.args[1:]) and all(_simple(k.value) for k in v.keywords):
                    fixed = v.args[1:]
                    params = a.args[1:]
                    defaults = dict(zip([p_.arg for p_ in a.args[len(a.args) - len(a.defaults):]], a.defaults))
                    kw = {k.arg for k in v.keywords}
                    rest = [p_ for p_ in params[len(fixed):] if p_.arg not in kw]
                    if len(fixed) <= len(params) and kw <= {p_.arg for p_ in params[len(fixed):]}:
                        me = a.args[0].arg
                        call = ast.Call(func=ast.Attribute(value=ast.Name(id=me, ctx=ast.Load()), attr=h.name, ctx=ast.Load()), args=[copy.deepcopy(x) for x in fixed] + [ast.Name(id=p_.arg, ctx=ast.Load()) for p_ in rest], keywords=[copy.deepcopy(k) for k in v.keywords])
                        rest_defaults = [copy.deepcopy(defaults[p_.arg]) for p_ in rest if p_.arg in defaults]
                        if all(p_.arg in defaults for p_ in rest[len(rest) - len(rest_defaults):]) and len([p_ for p_ in rest if p_.arg in defaults]) == len(rest_defaults):
                            f = ast.FunctionDef(name=tgt.id, args=ast.arguments(posonlyargs=[], args=[ast.arg(arg=me)] + [ast.arg(arg=p_.arg) for p_ in rest], vararg=None, kwonlyargs=[], kw_defaults=[], kwarg=None, defaults=rest_defaults), body=[ast.Return(value=call)], decorator_list=[], returns=None, type_comment=None)
                            out.append(ast.fix_missing_locations(ast.copy_location(f, st)))
                            count += 1
                            continue
            out.append(st)
        c.body = out
    return count


def _bound_method_aliases(tree):
    """`f = x.y.m` bound once in a function (x a name that is not re-bound there, f used only as the callee of calls): the
    calls `f(..)` are `x.y.m(..)`"""
    count = 0
    for fn in [n for n in ast.walk(tree) if isinstance(n, (ast.FunctionDef, ast.AsyncFunctionDef))]:
        stores, loads = {}, {}
        for n in ast.walk(fn):
            if isinstance(n, ast.Name):
                (stores if isinstance(n.ctx, (ast.Store, ast.Del)) else loads).setdefault(n.id, []).append(n)
        params = {a.arg for a in fn.args.args + fn.args.kwonlyargs + fn.args.posonlyargs}
        for i, st in enumerate(list(fn.body)):
            if not (isinstance(st, ast.Assign) and len(st.targets) == 1 and isinstance(st.targets[0], ast.Name) and isinstance(st.value, ast.Attribute) and _simple(st.value)):
                continue
            name = st.targets[0].id
            root = st.value
            while isinstance(root, ast.Attribute):
                root = root.value
            if not isinstance(root, ast.Name) or len(stores.get(name, [])) != 1 or name in params or stores.get(root.id) and root.id not in params or (root.id in params and stores.get(root.id)):
                continue
            calls = [n for n in ast.walk(fn) if isinstance(n, ast.Call) and isinstance(n.func, ast.Name) and n.func.id == name]
            if not calls or len(calls) != len(loads.get(name, [])):
                continue
            # nothing between the binding and the calls may assign the attribute itself (x.y.m = ..): rare; checked coarsely
            if any(isinstance(n, ast.Attribute) and isinstance(n.ctx, (ast.Store, ast.Del)) and n.attr == st.value.attr for n in ast.walk(fn)):
                continue
            for c in calls:
                c.func = ast.copy_location(copy.deepcopy(st.value), c.func)
            fn.body.remove(st)
            if not fn.body:
                fn.body = [ast.Pass()]
            count += 1
    if count:
        ast.fix_missing_locations(tree)
    return count


def _local_instances(tree):
    """`C(args)[k]` / `C(args).m(a)` / `C(args)(a)` — also through a local `x = C(args)` bound once and used only that
    way — where C is a class of the module whose constructor only stores its parameters and whose method is a single
    `return <expression>`: the expression, with `self._p` the constructor argument and the parameters the arguments
    (a small view / adapter object is the expressions it computes)."""
    classes = {st.name: st for st in tree.body if isinstance(st, ast.ClassDef)}
    shapes = {}
    for cn, c in classes.items():
        if c.bases or c.decorator_list or c.keywords:
            continue
        init = next((st for st in c.body if isinstance(st, ast.FunctionDef) and st.name == "__init__"), None)
        if init is None or init.decorator_list:
            continue
        a = init.args
        if a.vararg or a.kwarg or a.kwonlyargs or a.posonlyargs or a.defaults or not a.args:
            continue
        me = a.args[0].arg
        params = [x.arg for x in a.args[1:]]
        stores, ok = {}, True
        for st in init.body:
            if isinstance(st, ast.Expr) and isinstance(st.value, ast.Constant):
                continue
            if isinstance(st, (ast.Assign, ast.AnnAssign)):
                tg = st.targets[0] if isinstance(st, ast.Assign) and len(st.targets) == 1 else getattr(st, "target", None)
                if isinstance(tg, ast.Attribute) and isinstance(tg.value, ast.Name) and tg.value.id == me and isinstance(st.value, ast.Name) and st.value.id in params and tg.attr not in stores:
                    stores[tg.attr] = st.value.id
                    continue
            ok = False
        if not ok:
            continue
        meths = {}
        for st in c.body:
            if isinstance(st, ast.FunctionDef) and st.name != "__init__" and not st.decorator_list and st.args.args and not (st.args.vararg or st.args.kwarg or st.args.kwonlyargs or st.args.posonlyargs or st.args.defaults):
                body = [x for x in st.body if not (isinstance(x, ast.Expr) and isinstance(x.value, ast.Constant))]
                if len(body) == 1 and isinstance(body[0], ast.Return) and body[0].value is not None:
                    sname = st.args.args[0].arg
                    # the instance is used only to read the stored attributes
                    uses_self = [n for n in ast.walk(body[0].value) if isinstance(n, ast.Name) and n.id == sname]
                    attrs = [n for n in ast.walk(body[0].value) if isinstance(n, ast.Attribute) and isinstance(n.value, ast.Name) and n.value.id == sname and n.attr in stores and isinstance(n.ctx, ast.Load)]
                    if len(uses_self) == len(attrs):
                        meths[st.name] = (sname, [x.arg for x in st.args.args[1:]], body[0].value)
        if meths:
            shapes[cn] = (params, stores, meths)
    if not shapes:
        return 0
    count = [0]

    def instance(e, env):
        """(class name, {ctor param: arg}) for `C(args)` or a local known to hold one"""
        if isinstance(e, ast.Call) and isinstance(e.func, ast.Name) and e.func.id in shapes and not e.keywords and not any(isinstance(a, ast.Starred) for a in e.args):
            params = shapes[e.func.id][0]
            if len(e.args) == len(params) and all(_simple(a) for a in e.args):
                return e.func.id, dict(zip(params, e.args))
        if isinstance(e, ast.Name) and e.id in env:
            return env[e.id]
        return None

    def expand(inst, mname, args):
        cn, bound = inst
        params, stores, meths = shapes[cn]
        if mname not in meths:
            return None
        sname, mparams, expr = meths[mname]
        if len(args) != len(mparams) or any(isinstance(a, ast.Starred) for a in args):
            return None
        amap = dict(zip(mparams, args))

        class _S(ast.NodeTransformer):
            def visit_Attribute(self, n):
                if isinstance(n.value, ast.Name) and n.value.id == sname and n.attr in stores and isinstance(n.ctx, ast.Load):
                    return ast.copy_location(copy.deepcopy(bound[stores[n.attr]]), n)
                self.generic_visit(n)
                return n

            def visit_Name(self, n):
                if isinstance(n.ctx, ast.Load) and n.id in amap:
                    return ast.copy_location(copy.deepcopy(amap[n.id]), n)
                return n

        count[0] += 1
        return _S().visit(copy.deepcopy(expr))

    for fn in [n for n in ast.walk(tree) if isinstance(n, (ast.FunctionDef, ast.AsyncFunctionDef))]:
        stores_n, loads_n = {}, {}
        for n in ast.walk(fn):
            if isinstance(n, ast.Name):
                (stores_n if isinstance(n.ctx, (ast.Store, ast.Del)) else loads_n).setdefault(n.id, []).append(n)
        env, assigns = {}, {}
        for st in fn.body:
            if isinstance(st, ast.Assign) and len(st.targets) == 1 and isinstance(st.targets[0], ast.Name) and len(stores_n.get(st.targets[0].id, [])) == 1:
                inst = instance(st.value, {})
                if inst is not None and all(not stores_n.get(a.id) or a.id in {p.arg for p in fn.args.args} for a in inst[1].values() if isinstance(a, ast.Name)):
                    env[st.targets[0].id] = inst
                    assigns[st.targets[0].id] = st
        used_ok = {k: 0 for k in env}

        class _U(ast.NodeTransformer):
            def visit_Subscript(self, n):
                self.generic_visit(n)
                inst = instance(n.value, env) if isinstance(n.ctx, ast.Load) and not isinstance(n.slice, ast.Slice) else None
                if inst is not None:
                    e = expand(inst, "__getitem__", [n.slice])
                    if e is not None:
                        if isinstance(n.value, ast.Name):
                            used_ok[n.value.id] += 1
                        return ast.copy_location(e, n)
                return n

            def visit_Call(self, n):
                self.generic_visit(n)
                if n.keywords:
                    return n
                f = n.func
                if isinstance(f, ast.Attribute):
                    inst = instance(f.value, env)
                    if inst is not None:
                        e = expand(inst, f.attr, list(n.args))
                        if e is not None:
                            if isinstance(f.value, ast.Name):
                                used_ok[f.value.id] += 1
                            return ast.copy_location(e, n)
                elif isinstance(f, ast.Name) and f.id in env:
                    e = expand(env[f.id], "__call__", list(n.args))
                    if e is not None:
                        used_ok[f.id] += 1
                        return ast.copy_location(e, n)
                elif isinstance(f, ast.Call):
                    inst = instance(f, {})
                    if inst is not None:
                        e = expand(inst, "__call__", list(n.args))
                        if e is not None:
                            return ast.copy_location(e, n)
                return n

        snapshot = copy.deepcopy(fn.body)
        _U().visit(fn)
        # a local instance must have been used only in the ways that were replaced; otherwise nothing is changed
        if any(used_ok[k] != len(loads_n.get(k, [])) for k in env):
            fn.body = snapshot
            continue
        for k, st in assigns.items():
            if st in fn.body:
                fn.body.remove(st)
        if not fn.body:
            fn.body = [ast.Pass()]
    if count[0]:
        ast.fix_missing_locations(tree)
    return count[0]


def _single_dispatch(tree):
    """A module-level `functools.singledispatch` function with its registrations (`@f.register(T)` — also stacked —,
    `@f.register` with an annotated first parameter, `f.register(T, impl)`, `f.register(T)(impl)`) is the type switch
    it stands for: `def f(x, ..): if isinstance(x, T1): return impl1(x, ..) .. <body of the generic function>`, the
    tests ordered so that a class comes before the classes it derives from (as the dispatch on the method resolution
    order chooses)."""
    gens = {}
    for st in tree.body:
        if isinstance(st, ast.FunctionDef) and any(ast.unparse(d) in ("singledispatch", "functools.singledispatch") for d in st.decorator_list):
            a = st.args
            if a.vararg or a.kwarg or a.kwonlyargs or a.posonlyargs or a.defaults or not a.args:
                continue
            gens[st.name] = st
    if not gens:
        return 0
    regs = {g: [] for g in gens}
    taken = {st.name for st in tree.body if isinstance(st, (ast.FunctionDef, ast.ClassDef))}
    count = [0]

    def reg_call(e):
        """(generic name, type expression) for `f.register(T)`"""
        if isinstance(e, ast.Call) and isinstance(e.func, ast.Attribute) and e.func.attr == "register" and isinstance(e.func.value, ast.Name) and e.func.value.id in gens and not e.keywords:
            return e.func.value.id, e.args
        return None

    body, broken = [], set()
    for st in tree.body:
        if isinstance(st, ast.FunctionDef) and st.name not in gens or (isinstance(st, ast.FunctionDef) and gens.get(st.name) is not st):
            keep, types = [], []
            for d in st.decorator_list:
                r = reg_call(d)
                if r is not None and len(r[1]) == 1:
                    types.append((r[0], r[1][0]))
                elif isinstance(d, ast.Attribute) and d.attr == "register" and isinstance(d.value, ast.Name) and d.value.id in gens:
                    ann = st.args.args[0].annotation if st.args.args else None
                    if ann is None:
                        broken.add(d.value.id)
                    else:
                        types.append((d.value.id, ann))
                else:
                    keep.append(d)
            if types:
                if st.name == "_" or sum(1 for x in tree.body if isinstance(x, ast.FunctionDef) and x.name == st.name) > 1:
                    count[0] += 1
                    name = "_%s__case%d" % (types[0][0].lstrip("_"), count[0])
                    while name in taken:
                        name += "_"
                    taken.add(name)
                    st.name = name
                st.decorator_list = keep
                for g, t in types:
                    regs[g].append((t, ast.Name(id=st.name, ctx=ast.Load())))
            body.append(st)
            continue
        if isinstance(st, ast.Expr):
            r = reg_call(st.value)
            if r is not None and len(r[1]) == 2:
                regs[r[0]].append((r[1][0], r[1][1]))
                continue
            if isinstance(st.value, ast.Call) and len(st.value.args) == 1 and not st.value.keywords:
                r = reg_call(st.value.func)
                if r is not None and len(r[1]) == 1:
                    regs[r[0]].append((r[1][0], st.value.args[0]))
                    continue
        body.append(st)
    n = 0
    for name, g in gens.items():
        if name in broken:
            continue
        # other uses of the registry (f.registry, f.dispatch, registrations inside functions) are not followed
        if any(isinstance(x, ast.Attribute) and isinstance(x.value, ast.Name) and x.value.id == name and x.attr in ("register", "registry", "dispatch") for st in body for x in ast.walk(st)):
            continue
        cases = []
        for t, impl in regs[name]:
            anc = _ancestors_of(t)
            if anc is None:
                cases = None
                break
            cases.append((t, impl, anc))
        if cases is None:
            continue
        cases.sort(key=lambda c: -len(c[2]))  # stable: a class has more ancestors than any class it derives from
        params = [a.arg for a in g.args.args]
        chain = []
        for t, impl, _anc in cases:
            call = ast.Call(func=copy.deepcopy(impl), args=[ast.Name(id=p_, ctx=ast.Load()) for p_ in params], keywords=[])
            call = _Beta().visit(call)
            test = ast.Call(func=ast.Name(id="isinstance", ctx=ast.Load()), args=[ast.Name(id=params[0], ctx=ast.Load()), copy.deepcopy(t)], keywords=[])
            chain.append(ast.copy_location(ast.If(test=test, body=[ast.Return(value=call)], orelse=[]), g))
        g.decorator_list = [d for d in g.decorator_list if ast.unparse(d) not in ("singledispatch", "functools.singledispatch")]
        doc = [x for x in g.body[:1] if isinstance(x, ast.Expr) and isinstance(x.value, ast.Constant) and isinstance(x.value.value, str)]
        g.body = doc + chain + g.body[len(doc):]
        ast.fix_missing_locations(g)
        n += 1
    tree.body = body
    return n


def _yield_from_loops(tree):
    """a statement `yield from E` whose value is not used hands out the items of E one by one: `for y in E: yield y`
    (`yield from map(f, E)` with a named f: `for y in E: yield f(y)`)"""
    count = [0]

    class _T(ast.NodeTransformer):
        def visit_Expr(self, st):
            v = st.value
            if not isinstance(v, ast.YieldFrom):
                return st
            count[0] += 1
            name = "_yf%d" % count[0]
            it, item = v.value, ast.Name(id=name, ctx=ast.Load())
            if isinstance(it, ast.Call) and isinstance(it.func, ast.Name) and it.func.id == "map" and len(it.args) == 2 and not it.keywords and _simple(it.args[0]) and not isinstance(it.args[0], ast.Constant):
                item = ast.Call(func=it.args[0], args=[item], keywords=[])
                it = it.args[1]
            loop = ast.For(target=ast.Name(id=name, ctx=ast.Store()), iter=it, body=[ast.Expr(value=ast.Yield(value=item))], orelse=[], type_comment=None)
            return ast.fix_missing_locations(ast.copy_location(loop, st))

    _T().visit(tree)
    return count[0]


def _unpack_displays(tree):
    """`a, b = (e1, e2)`, `a, b = map(f, (x, y))`, `a, b = (E(v) for v in (x, y))` with as many targets as elements and
    no target read on the right: one assignment per target, in order"""
    count = [0]

    def elements(v):
        if isinstance(v, (ast.Tuple, ast.List)) and not any(isinstance(x, ast.Starred) for x in v.elts):
            return list(v.elts)
        if isinstance(v, ast.Call) and isinstance(v.func, ast.Name) and v.func.id == "map" and len(v.args) == 2 and not v.keywords and _simple(v.args[0]) and not isinstance(v.args[0], ast.Constant):
            src = elements(v.args[1])
            if src is not None and all(_simple(x) for x in src):
                return [ast.Call(func=copy.deepcopy(v.args[0]), args=[x], keywords=[]) for x in src]
        if isinstance(v, (ast.GeneratorExp, ast.ListComp)) and len(v.generators) == 1 and not v.generators[0].ifs and not v.generators[0].is_async and isinstance(v.generators[0].target, ast.Name):
            src = elements(v.generators[0].iter)
            if src is not None and all(_simple(x) for x in src):
                return [_Subst({v.generators[0].target.id: x}).visit(copy.deepcopy(v.elt)) for x in src]
        return None

    def rewrite(stmts):
        out = []
        for st in stmts:
            for fld in ("body", "orelse", "finalbody"):
                sub = getattr(st, fld, None)
                if isinstance(sub, list) and sub and isinstance(sub[0], ast.stmt):
                    setattr(st, fld, rewrite(sub))
            for h in getattr(st, "handlers", []) or []:
                h.body = rewrite(h.body)
            if isinstance(st, ast.Assign) and len(st.targets) == 1 and isinstance(st.targets[0], (ast.Tuple, ast.List)) and all(isinstance(t, ast.Name) for t in st.targets[0].elts):
                els = elements(st.value)
                names = [t.id for t in st.targets[0].elts]
                if els is not None and len(els) == len(names) and len(set(names)) == len(names) and not any(isinstance(n, ast.Name) and n.id in names for e in els for n in ast.walk(e)):
                    for t, e in zip(st.targets[0].elts, els):
                        out.append(ast.fix_missing_locations(ast.copy_location(ast.Assign(targets=[t], value=e, type_comment=None), st)))
                    count[0] += 1
                    continue
            out.append(st)
        return out

    tree.body = rewrite(tree.body)
    return count[0]


def _display_compares(tree):
    """`xs = [e1, e2, e3, e4]` bound once in a function and read only through constant slices / indices:
    `xs[0::2] == xs[1::2]` is `e1 == e2 and e3 == e4` (two displays of the same length compared element by element); a
    constant index `xs[1]` is `e2`.  The elements must be free of effects that matter for order (they are evaluated
    where the display was, in order, anyway — the display assignment is kept)."""
    count = 0
    for fn in [n for n in ast.walk(tree) if isinstance(n, (ast.FunctionDef, ast.AsyncFunctionDef))]:
        stores = {}
        for n in ast.walk(fn):
            if isinstance(n, ast.Name) and isinstance(n.ctx, (ast.Store, ast.Del)):
                stores[n.id] = stores.get(n.id, 0) + 1
        lists = {}
        for st in fn.body:
            if isinstance(st, ast.Assign) and len(st.targets) == 1 and isinstance(st.targets[0], ast.Name) and isinstance(st.value, (ast.List, ast.Tuple)) and stores.get(st.targets[0].id) == 1 and not any(isinstance(e, ast.Starred) for e in st.value.elts):
                lists[st.targets[0].id] = st.value.elts
        if not lists:
            continue
        # no method call on the list (append ..) and no other use than subscripts
        bad = set()
        parents = {}
        for n in ast.walk(fn):
            for c in ast.iter_child_nodes(n):
                parents[c] = n
        for n in ast.walk(fn):
            if isinstance(n, ast.Name) and n.id in lists and isinstance(n.ctx, ast.Load):
                p_ = parents.get(n)
                if not (isinstance(p_, ast.Subscript) and p_.value is n and isinstance(p_.ctx, ast.Load)):
                    bad.add(n.id)
        lists = {k: v for k, v in lists.items() if k not in bad}
        if not lists:
            continue

        def const(x):
            if x is None:
                return True, None
            if isinstance(x, ast.Constant) and isinstance(x.value, int) and not isinstance(x.value, bool):
                return True, x.value
            if isinstance(x, ast.UnaryOp) and isinstance(x.op, ast.USub) and isinstance(x.operand, ast.Constant) and isinstance(x.operand.value, int):
                return True, -x.operand.value
            return False, None

        def picked(e):
            """elements a subscript of a known display denotes: list for a slice, single expr for an index"""
            if not (isinstance(e, ast.Subscript) and isinstance(e.value, ast.Name) and e.value.id in lists):
                return None
            elts = lists[e.value.id]
            if isinstance(e.slice, ast.Slice):
                b = [const(e.slice.lower), const(e.slice.upper), const(e.slice.step)]
                if all(ok for ok, _v in b):
                    return list(elts[slice(*[v for _ok, v in b])])
                return None
            ok, i = const(e.slice)
            if ok and i is not None and -len(elts) <= i < len(elts):
                return elts[i]
            return None

        class _T(ast.NodeTransformer):
            def visit_Compare(self, n):
                self.generic_visit(n)
                if len(n.ops) == 1 and isinstance(n.ops[0], (ast.Eq, ast.NotEq)):
                    a, b = picked(n.left), picked(n.comparators[0])
                    if isinstance(a, list) and isinstance(b, list) and len(a) == len(b) and a:
                        pairs = [ast.Compare(left=copy.deepcopy(x), ops=[ast.Eq()], comparators=[copy.deepcopy(y)]) for x, y in zip(a, b)]
                        e = pairs[0] if len(pairs) == 1 else ast.BoolOp(op=ast.And(), values=pairs)
                        if isinstance(n.ops[0], ast.NotEq):
                            e = ast.UnaryOp(op=ast.Not(), operand=e)
                        return ast.fix_missing_locations(ast.copy_location(e, n))
                return n

            def visit_Subscript(self, n):
                self.generic_visit(n)
                if isinstance(n.ctx, ast.Load):
                    a = picked(n)
                    if a is not None and not isinstance(a, list) and _pure_expr(a):
                        return ast.copy_location(copy.deepcopy(a), n)
                return n

        before = ast.dump(fn)
        _T().visit(fn)
        if ast.dump(fn) != before:
            count += 1
    return count


def _first_match_searches(tree, table_of):
    """`for T in TABLE: if P(T): break` with an `else:` part, followed by the rest of the block (at most four statements,
    ending the block): the search for the first row with P, as the chain it stands for —
        if P(row1): REST[T := row1]   elif P(row2): REST[T := row2]  ..  else: ELSE-PART; REST
    (the loop variables keep the matching row after the loop; the rest of the block is copied into every branch)."""
    count = [0]

    def rewrite(stmts, ctx):
        out = list(stmts)
        for i, st in enumerate(out):
            for fld in ("body", "orelse", "finalbody"):
                sub = getattr(st, fld, None)
                if isinstance(sub, list) and sub and isinstance(sub[0], ast.stmt) and not isinstance(st, ast.ClassDef):
                    setattr(st, fld, rewrite(sub, ctx))
            if isinstance(st, ast.ClassDef):
                st.body = rewrite(st.body, st.name)
        for i, st in enumerate(out):
            if not (isinstance(st, ast.For) and st.orelse and len(st.body) == 1 and isinstance(st.body[0], ast.If) and not st.body[0].orelse and len(st.body[0].body) == 1 and isinstance(st.body[0].body[0], ast.Break)):
                continue
            rest = out[i + 1 :]
            if len(rest) > 4 or any(isinstance(n, (ast.Break, ast.Continue)) for r in rest for n in ast.walk(r)):
                continue
            rows = table_of(st.iter, ctx)
            if not rows or len(rows) > MAX_ROWS:
                continue
            names = [t.id for t in ([st.target] if isinstance(st.target, ast.Name) else st.target.elts if isinstance(st.target, ast.Tuple) and all(isinstance(t, ast.Name) for t in st.target.elts) else [])]
            if not names:
                continue
            # the loop variables are only read afterwards (and in the else part only assigned)
            if any(isinstance(n, ast.Name) and n.id in names and isinstance(n.ctx, (ast.Store, ast.Del)) for r in rest for n in ast.walk(r)):
                continue
            test = st.body[0].test
            chain = None
            branches = []
            ok = True
            for row in rows:
                m = {}
                if not Unroller.bind(st.target, row, m):
                    ok = False
                    break
                t_ = _FoldAttr().visit(_Subst(m).visit(copy.deepcopy(test)))
                body = [_FoldAttr().visit(_Subst(m).visit(copy.deepcopy(r))) for r in rest] or [ast.Pass()]
                branches.append((t_, body))
            if not ok:
                continue
            tail = list(st.orelse) + [copy.deepcopy(r) for r in rest]
            # an else part that just gives the loop variables their default row: substituted like a row
            if all(isinstance(x, ast.Assign) and len(x.targets) == 1 for x in st.orelse):
                m, good = {}, True
                for x in st.orelse:
                    if not (Unroller.bind(x.targets[0], x.value, m)):
                        good = False
                if good and set(m) == set(names) and all(_simple(x) for x in m.values()):
                    tail = [_FoldAttr().visit(_Subst(m).visit(copy.deepcopy(r))) for r in rest] or [ast.Pass()]
            node = None
            for t_, body in reversed(branches):
                node = ast.If(test=t_, body=body, orelse=[node] if node is not None else tail)
            count[0] += 1
            new = out[:i] + [ast.fix_missing_locations(ast.copy_location(node, st))]
            return rewrite(new, ctx) if False else new
        return out

    tree.body = rewrite(tree.body, None)
    return count[0]


def normalise(tree):
    """unroll table-driven loops and fold constant getattr / setattr; returns (tree, number of loops unrolled)"""
    _single_dispatch(tree)
    _partial_methods(tree)
    _module_instances(tree)
    _local_instances(tree)
    _unpack_displays(tree)
    _yield_from_loops(tree)
    _flatten_private_bases(tree)
    _specialise_template_methods(tree)
    _apply_chosen_callable(tree)
    _attrgetters(tree)
    _bound_method_aliases(tree)
    _iter_protocol(tree)
    _closure_factories(tree)
    _collect_records(tree)
    _iterate_until(tree)
    _inline_pure_helpers(tree)
    _delegations(tree)
    tree = _MapExtend(tree).visit(tree)
    u = Unroller(tree)
    _cls_stack = []

    def _table_of(e, cname):
        u.cls = [cname] if cname else []
        t = u.table(e)
        u.cls = []
        if t is None:
            return None
        return list(t[1].keys) if t[0] == "pairs" else t[1]

    _first_match_searches(tree, _table_of)
    tree = u.visit(tree)
    _attrgetters(tree)  # functions of the operator module that came to stand at their call by unrolling
    tree = _FoldAttr().visit(tree)
    tree = _SubElement().visit(tree)
    tree = _HoistElement().visit(tree)
    _inline_local_procedures(tree)
    _display_compares(tree)
    ast.fix_missing_locations(tree)
    return tree, u.count

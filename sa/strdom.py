"""String-template domain: abstract evaluation of id printers and parsers.

A printed id is a *template*: a sequence of literal text and atoms (Sym) standing for the unbounded fields of the
object (country, map name, numbers, ...).  The printer is evaluated over the AST on an object whose fields are such
atoms (one evaluation per *shape case*: which optional fields are present, scalar or list); the grammar (a regex
parse tree, taken from the source constant) is matched structurally against the template, which yields the template
slice each named group captures; the parser is evaluated on those slices and its constructor arguments are compared
with the fields the printer started from.  Nothing of the repository is imported or executed; finite domains (enum
members) are folded as constants.

Every test the evaluator meets must be decidable from the shape case; otherwise it refuses (AnalysisError).
Operations that cut an atom into pieces (slicing through it, findall with a narrower pattern, ...) yield Frag, a poison
value that can never compare equal to a field.
"""
import ast

try:
    import re._parser as sre_parse  # python >= 3.11
    import re._constants as sre_c
except ImportError:  # pragma: no cover
    import sre_parse
    import sre_constants as sre_c

from .core import AnalysisError, norm

MAXREP = sre_c.MAXREPEAT


# ------------------------------------------------------------------ values
class Sym:
    """opaque atom.  kind 'str': the atom *is* a string; kind 'int': an integer whose str() is the atom's text.
    lang: runs [(frozenset chars, lo, hi)] describing str(atom); length: exact text length when known"""

    def __init__(self, name, kind="str", lang=None, positive=False):
        self.name, self.kind, self.lang, self.positive = name, kind, lang or [], positive

    @property
    def charset(self):
        cs = set()
        for c, _lo, _hi in self.lang:
            cs |= c
        if not self.lang and self.kind in ("int", "num", "float"):
            # the text of a number: digits, a sign unless known positive; a real may use a point, an exponent, inf, nan
            cs = set("0123456789") | (set() if self.positive else {"-"})
            if self.kind != "int":
                cs |= set(".e+-infa")
        return cs

    @property
    def length(self):
        lo = sum(r[1] for r in self.lang)
        hi = sum(r[2] for r in self.lang) if all(r[2] != MAXREP for r in self.lang) else None
        return lo if self.lang and hi == lo else None

    def __repr__(self):
        return "<%s>" % self.name


class Term:
    """numeric expression over atoms (kind 'num' / 'int' Syms and constants): op + operands, structurally compared;
    + and * are commutative"""

    def __init__(self, op, args):
        self.op, self.args = op, tuple(args)

    def key(self):
        ks = [term_key(a) for a in self.args]
        if self.op in ("+", "*"):
            ks = sorted(ks, key=repr)
        return (self.op,) + tuple(ks)

    def __repr__(self):
        if len(self.args) == 2 and not self.op.isalnum():
            return "(%r %s %r)" % (self.args[0], self.op, self.args[1])
        return "%s(%s)" % (self.op, ", ".join(repr(a) for a in self.args))


def term_key(v):
    if isinstance(v, Term):
        return v.key()
    if isinstance(v, Sym):
        return ("sym", v.name)
    if isinstance(v, NoneT):
        return ("none",)
    if isinstance(v, (bool, int, float)):
        return ("const", float(v)) if not isinstance(v, bool) else ("bool", v)
    return ("other", id(v))


def linear_of(v):
    """{atom name: coefficient, "1": constant} of a numeric term that is linear in its atoms, else None"""
    if isinstance(v, bool):
        return None
    if isinstance(v, (int, float)):
        return {"1": float(v)} if v else {}
    if isinstance(v, Sym):
        return {v.name: 1.0}
    if not isinstance(v, Term):
        return None
    a = [linear_of(x) for x in v.args]
    if any(x is None for x in a):
        return None

    def scale(d, k):
        return {n: c * k for n, c in d.items() if c * k}

    def add(d, e, sgn=1.0):
        out = dict(d)
        for n, c in e.items():
            out[n] = out.get(n, 0.0) + sgn * c
        return {n: c for n, c in out.items() if c}

    if v.op == "+":
        return add(a[0], a[1])
    if v.op == "-":
        return add(a[0], a[1], -1.0)
    if v.op == "neg":
        return scale(a[0], -1.0)
    if v.op == "*":
        if set(a[0]) <= {"1"}:
            return scale(a[1], a[0].get("1", 0.0))
        if set(a[1]) <= {"1"}:
            return scale(a[0], a[1].get("1", 0.0))
        return None
    if v.op == "/" and set(a[1]) <= {"1"} and a[1].get("1"):
        return scale(a[0], 1.0 / a[1]["1"])
    return None


def is_numeric(v):
    return isinstance(v, Term) or (isinstance(v, Sym) and v.kind in ("num", "int", "float")) or (isinstance(v, (int, float)) and not isinstance(v, bool))


class NoneT:
    def __repr__(self):
        return "None"


NONE = NoneT()


class Frag:
    """a value that is provably *not* a whole field (a piece of an atom, or glued atoms)"""

    def __init__(self, why):
        self.why = why

    def __repr__(self):
        return "Frag(%s)" % self.why


class Str:
    def __init__(self, pieces=()):
        out = []
        for p in pieces:
            if p[0] == "lit":
                if not p[1]:
                    continue
                if out and out[-1][0] == "lit":
                    out[-1] = ("lit", out[-1][1] + p[1])
                    continue
            out.append(p)
        self.pieces = tuple(out)

    @staticmethod
    def lit(s):
        return Str([("lit", s)])

    def is_lit(self):
        return all(p[0] == "lit" for p in self.pieces)

    def text(self):
        return "".join(p[1] if p[0] == "lit" else "<%s>" % p[1].name for p in self.pieces)

    def key(self):
        return tuple((p[0], p[1] if p[0] == "lit" else p[1].name) for p in self.pieces)

    def cells(self):
        """characters of the literals one by one, atoms whole"""
        out = []
        for p in self.pieces:
            if p[0] == "lit":
                out += [("lit", ch) for ch in p[1]]
            else:
                out.append(p)
        return out

    def __add__(self, other):
        return Str(self.pieces + other.pieces)

    def __repr__(self):
        return "Str(%r)" % self.text()


class ListV:
    def __init__(self, items=()):
        self.items = list(items)

    def __repr__(self):
        return "List%r" % (self.items,)


class TupV(ListV):
    def __repr__(self):
        return "Tuple%r" % (self.items,)


class IterV(ListV):
    """an iterator (iter(..), a generator, map / filter / zip / enumerate / reversed): `items` is what it has not
    handed out yet; next() and loops take from the front"""

    def __repr__(self):
        return "Iterator%r" % (self.items,)


class RepeatV(ListV):
    """itertools.repeat(x) without a count: endless; usable only where something else bounds it (zip)"""

    def __init__(self, value):
        ListV.__init__(self, [value] * 64)
        self.value = value


class NamedTupV(TupV):
    """instance of a typing.NamedTuple class: a tuple whose items also have names"""

    def __init__(self, cls, names, items):
        TupV.__init__(self, items)
        self.cls, self.names = cls, list(names)

    def __repr__(self):
        return "%s(%s)" % (self.cls.name, ", ".join("%s=%r" % kv for kv in zip(self.names, self.items)))


class NTClass:
    """class made by collections.namedtuple(name, fields)"""

    def __init__(self, name, names):
        self.name, self.names, self.field_order, self.bases = name, list(names), list(names), ["NamedTuple"]


class PropV:
    """a property object reached through its class (Interval.start): .fget / .fset / .fdel"""

    def __init__(self, owner, parts):
        self.owner, self.parts = owner, parts


class PartialV:
    """functools.partial(target, *args, **kwargs)"""

    def __init__(self, target, args, kwargs):
        self.target, self.args, self.kwargs = target, list(args), dict(kwargs)


class SetV(ListV):
    def __repr__(self):
        return "Set%r" % (self.items,)


class DictV:
    def __init__(self, d=None):
        self.d = dict(d or {})

    @staticmethod
    def alias(d):
        """a dictionary value that *is* the given dict (used for obj.__dict__)"""
        v = DictV()
        v.d = d
        return v


class ElemV:
    """model of an (l)xml element: tag, attributes, text, children — what writers build and readers walk"""

    def __init__(self, tag, attrib=None):
        self.tag, self.attrib, self.children, self.text, self.tail = tag, DictV(attrib or {}), ListV([]), NONE, NONE

    def __repr__(self):
        return "<%s %s%s>" % (show(self.tag), {k: show(v) for k, v in self.attrib.d.items()}, " +%d" % len(self.children.items) if self.children.items else "")


class IdV:
    """id(x): only usable as a dictionary key and in equality tests"""

    def __init__(self, of):
        self.of = of

    def __repr__(self):
        return "id(%r)" % (self.of,)


class Obj:
    def __init__(self, cls, fields=None, closed=False, label=None):
        self.cls, self.fields = cls, dict(fields or {})
        self.closed = closed  # all instance attributes are listed: reading another one raises AttributeError
        self.label = label
        self.dyn = {}  # attribute -> callable() giving its current value (computed attributes of model objects)

    def __repr__(self):
        return self.label or "Obj(%s)" % (self.cls.name if self.cls is not None else "?")


class Lenient(Obj):
    """an outside object whose shape is not modelled (a protobuf message, ...): every attribute exists (and is again
    such an object), every method can be called; stores and calls are recorded in `log` of the root"""

    def __init__(self, label, root=None):
        Obj.__init__(self, None, {}, closed=False, label=label)
        self.root = root or self
        if root is None:
            self.log = []


class Ctor:
    """result of constructing / calling something the evaluator does not look into: name + bound arguments"""

    def __init__(self, name, args, kind="object"):
        self.name, self.args, self.kind = name, args, kind  # kind 'object': a constructed object; 'call': result of an uninterpreted call

    def __repr__(self):
        return "%s(%s)" % (self.name, ", ".join("%s=%r" % kv for kv in self.args.items()))


class ClassRef:
    def __init__(self, cls):
        self.cls = cls


class EnumMember:
    def __init__(self, cls, name, value):
        self.cls, self.name, self.value = cls, name, value

    def __repr__(self):
        return "%s.%s" % (self.cls.name, self.name)


class MatchV:
    def __init__(self, groups):
        self.groups = groups  # name -> Str | NONE


class Raised:
    def __init__(self, node, what):
        self.node, self.what = node, what


def same(a, b):
    """structural equality of abstract values; Frag equals nothing"""
    if isinstance(a, Frag) or isinstance(b, Frag):
        return False
    if isinstance(a, Str) and isinstance(b, Str):
        return a.key() == b.key()
    if isinstance(a, Sym) and isinstance(b, Sym):
        return a is b
    if isinstance(a, Term) or isinstance(b, Term):
        return term_key(a) == term_key(b)
    if isinstance(a, SetV) and isinstance(b, SetV):
        return len(a.items) == len(b.items) and all(any(same(x, y) for y in b.items) for x in a.items)
    if isinstance(a, ListV) and isinstance(b, ListV):
        return type(a) is type(b) and len(a.items) == len(b.items) and all(same(x, y) for x, y in zip(a.items, b.items))
    if isinstance(a, DictV) and isinstance(b, DictV):
        return set(a.d) == set(b.d) and all(same(a.d[k], b.d[k]) for k in a.d)
    if isinstance(a, IdV) and isinstance(b, IdV):
        return a.of is b.of
    if isinstance(a, EnumMember) and isinstance(b, EnumMember):
        return a.cls is b.cls and a.name == b.name
    if isinstance(a, NoneT) or isinstance(b, NoneT):
        return a is b
    if isinstance(a, (bool, int, float, str)) and isinstance(b, (bool, int, float, str)):
        return type(a) is type(b) and a == b
    if isinstance(a, Ctor) and isinstance(b, Ctor):
        return a.name == b.name and set(a.args) == set(b.args) and all(same(a.args[k], b.args[k]) for k in a.args)
    return a is b


def show(v):
    if isinstance(v, Str):
        return repr(v.text())
    if isinstance(v, ListV):
        return "[%s]" % ", ".join(show(x) for x in v.items)
    return repr(v)


# ------------------------------------------------------------------ regex structure
def charset_of(items):
    chars = set()
    neg = False
    for op, av in items:
        if op == sre_c.LITERAL:
            chars.add(chr(av))
        elif op == sre_c.RANGE:
            chars |= {chr(c) for c in range(av[0], av[1] + 1)}
        elif op == sre_c.NEGATE:
            neg = True
        elif op == sre_c.CATEGORY:
            if av == sre_c.CATEGORY_DIGIT:
                chars |= set("0123456789")
            elif av == sre_c.CATEGORY_WORD:
                chars |= set("abcdefghijklmnopqrstuvwxyzABCDEFGHIJKLMNOPQRSTUVWXYZ0123456789_")
            elif av == sre_c.CATEGORY_SPACE:
                chars |= set(" \t\n\r\f\v")
            else:
                raise AnalysisError("regex category %s not modelled" % av)
        elif op == sre_c.IN:
            c2, n2 = charset_of(av)
            if n2:
                raise AnalysisError("nested negated class")
            chars |= c2
    return frozenset(chars), neg


def class_run(item):
    """(charset, lo, hi) when the regex item is a character class possibly under a repeat, else None"""
    op, av = item
    if op == sre_c.IN:
        cs, neg = charset_of(av)
        return None if neg else (cs, 1, 1)
    if op == sre_c.LITERAL:
        return None
    if op in (sre_c.MAX_REPEAT, sre_c.MIN_REPEAT):
        lo, hi, sub = av
        sub = list(sub)
        if len(sub) == 1 and sub[0][0] == sre_c.IN:
            cs, neg = charset_of(sub[0][1])
            return None if neg else (cs, lo, hi)
    return None


def runs_include(outer, inner):
    """language of run list `inner` is contained in that of `outer` (same segmentation, or both single-class)"""
    def merge(runs):
        out = []
        for cs, lo, hi in runs:
            if out and out[-1][0] == cs:
                plo, phi = out[-1][1], out[-1][2]
                out[-1] = (cs, plo + lo, MAXREP if MAXREP in (phi, hi) else phi + hi)
            else:
                out.append((cs, lo, hi))
        return out

    if len(outer) == len(inner) and all(o[0] >= i[0] and o[1] <= i[1] and (o[2] == MAXREP or (i[2] != MAXREP and o[2] >= i[2])) for o, i in zip(outer, inner)):
        return True
    # [1-9][0-9]* inside [0-9]+ : compare total charset and total length range
    if len(merge(outer)) == 1 and inner:
        o = merge(outer)[0]
        ics = set()
        for c, _l, _h in inner:
            ics |= c
        ilo = sum(r[1] for r in inner)
        ihi = MAXREP if any(r[2] == MAXREP for r in inner) else sum(r[2] for r in inner)
        return o[0] >= ics and o[1] <= ilo and (o[2] == MAXREP or (ihi != MAXREP and o[2] >= ihi))
    return False


class Grammar:
    def __init__(self, pattern):
        self.pattern = pattern
        self.tree = sre_parse.parse(pattern)
        self.names = {v: k for k, v in self.tree.state.groupdict.items()}

    def alphabet(self):
        cs = set()

        def walk(items):
            for op, av in items:
                if op == sre_c.LITERAL:
                    cs.add(chr(av))
                elif op == sre_c.IN:
                    c, neg = charset_of(av)
                    if neg:
                        raise AnalysisError("negated class in the id grammar")
                    cs.update(c)
                elif op in (sre_c.MAX_REPEAT, sre_c.MIN_REPEAT):
                    walk(av[2])
                elif op == sre_c.SUBPATTERN:
                    walk(av[3])
                elif op == sre_c.BRANCH:
                    for b in av[1]:
                        walk(b)
                else:
                    raise AnalysisError("regex construct %s not modelled" % op)

        walk(self.tree)
        return frozenset(cs)

    def group_runs(self, name):
        """class runs of a named group whose body is only character classes, else None"""
        found = []

        def walk(items):
            for op, av in items:
                if op == sre_c.SUBPATTERN:
                    if self.names.get(av[0]) == name:
                        found.append(list(av[3]))
                    walk(av[3])
                elif op in (sre_c.MAX_REPEAT, sre_c.MIN_REPEAT):
                    walk(av[2])
                elif op == sre_c.BRANCH:
                    for b in av[1]:
                        walk(b)

        walk(self.tree)
        if len(found) != 1:
            return None
        runs = [class_run(it) for it in found[0]]
        return None if any(r is None for r in runs) else runs

    def fullmatch(self, s):
        """match the template against the grammar; {group: Str or NONE} or None when it does not conform.
        Atoms are indivisible: an atom matches a maximal stretch of class items whose language includes the atom's."""
        cells = s.cells()
        results = []

        def seq(items, k, i, caps, cont):
            if k == len(items):
                return cont(i, caps)
            op, av = items[k]
            if op == sre_c.LITERAL:
                if i < len(cells) and cells[i] == ("lit", chr(av)):
                    return seq(items, k + 1, i + 1, caps, cont)
                return False
            if class_run(items[k]) is not None:
                # literal characters one class item at a time; atoms against a stretch of class items
                if i < len(cells) and cells[i][0] == "sym":
                    sym = cells[i][1]
                    for k2 in range(k + 1, len(items) + 1):
                        runs = [class_run(it) for it in items[k:k2]]
                        if any(r is None for r in runs):
                            break
                        if runs_include(runs, sym.lang) and seq(items, k2, i + 1, caps, cont):
                            return True
                    return False
                cs, lo, hi = class_run(items[k])
                # greedy over literal characters, with backtracking
                n = 0
                while i + n < len(cells) and cells[i + n][0] == "lit" and cells[i + n][1] in cs and (hi == MAXREP or n < hi):
                    n += 1
                while n >= lo:
                    if seq(items, k + 1, i + n, caps, cont):
                        return True
                    n -= 1
                return False
            if op in (sre_c.MAX_REPEAT, sre_c.MIN_REPEAT):
                lo, hi, sub = av
                sub = list(sub)

                def rep(count, j, caps2):
                    # try one more repetition first (greedy), then continue
                    if hi == MAXREP or count < hi:
                        if seq(sub, 0, j, caps2, lambda j2, c2: j2 > j and rep(count + 1, j2, c2)):
                            return True
                    if count >= lo:
                        return seq(items, k + 1, j, caps2, cont)
                    return False

                return rep(0, i, caps)
            if op == sre_c.SUBPATTERN:
                gid, _a, _b, sub = av
                sub = list(sub)

                def after(j, caps2):
                    c3 = dict(caps2)
                    if gid in self.names:
                        c3[self.names[gid]] = (i, j)
                    return seq(items, k + 1, j, c3, cont)

                return seq(sub, 0, i, caps, after)
            if op == sre_c.BRANCH:
                for b in av[1]:
                    if seq(list(b), 0, i, caps, lambda j, c2: seq(items, k + 1, j, c2, cont)):
                        return True
                return False
            raise AnalysisError("regex construct %s not modelled" % op)

        def done(i, caps):
            if i == len(cells):
                results.append(caps)
                return True
            return False

        if not seq(list(self.tree), 0, 0, {}, done):
            return None
        caps = results[0]
        out = {}
        for g in self.names.values():
            if g in caps:
                a, b = caps[g]
                out[g] = Str(cells[a:b])
            else:
                out[g] = NONE
        return out


# ------------------------------------------------------------------ string operations on templates
def _sym_safe(s, chars):
    """no atom of the template can contain any of `chars`"""
    return all(p[0] == "lit" or not (p[1].charset & set(chars)) for p in s.pieces)


def str_split(s, sep):
    if not sep:
        raise AnalysisError("split with an empty separator")
    if not _sym_safe(s, sep):
        return Frag("split(%r) may cut through %s" % (sep, s.text()))
    parts, cur = [], []
    for p in s.pieces:
        if p[0] == "lit":
            chunks = p[1].split(sep)
            for i, ch in enumerate(chunks):
                if i > 0:
                    parts.append(Str(cur))
                    cur = []
                cur.append(("lit", ch))
        else:
            cur.append(p)
    parts.append(Str(cur))
    # a separator longer than one character could straddle a literal/atom border only if atoms may hold its chars
    return ListV(parts)


def str_replace(s, old, new):
    if not _sym_safe(s, old):
        return Frag("replace(%r) may alter %s" % (old, s.text()))
    return Str([("lit", p[1].replace(old, new)) if p[0] == "lit" else p for p in s.pieces])


def re_sub_class(pattern, repl, s):
    """re.sub for a pattern that is one character class (optionally repeated)"""
    tree = list(sre_parse.parse(pattern))
    if len(tree) != 1:
        raise AnalysisError("re.sub pattern %r is not a single character class" % pattern)
    op, av = tree[0]
    if op in (sre_c.MAX_REPEAT, sre_c.MIN_REPEAT) and len(list(av[2])) == 1:
        op, av = list(av[2])[0]
    if op == sre_c.LITERAL:
        cs, neg = frozenset(chr(av)), False
    elif op == sre_c.IN:
        cs, neg = charset_of(av)
    else:
        raise AnalysisError("re.sub pattern %r is not a single character class" % pattern)

    def hit(ch):
        return (ch in cs) != neg

    out = []
    for p in s.pieces:
        if p[0] == "lit":
            out.append(("lit", "".join(repl if hit(ch) else ch for ch in p[1])))
        else:
            if any(hit(ch) for ch in p[1].charset):
                return Frag("re.sub(%r) may alter <%s>" % (pattern, p[1].name))
            out.append(p)
    return Str(out)


def re_findall_class(pattern, s):
    """re.findall for a pattern made of character-class items: the maximal stretches it matches"""
    items = list(sre_parse.parse(pattern))
    runs = [class_run(it) for it in items]
    if not runs or any(r is None for r in runs):
        raise AnalysisError("re.findall pattern %r is not a sequence of character classes" % pattern)
    allcs = set()
    for cs, _l, _h in runs:
        allcs |= cs
    out = []
    cells = s.cells()
    i = 0
    while i < len(cells):
        c = cells[i]
        if c[0] == "sym":
            if c[1].charset & allcs:
                nxt_lit_ok = (i + 1 >= len(cells)) or (cells[i + 1][0] == "lit" and cells[i + 1][1] not in allcs)
                prv_lit_ok = (i == 0) or (cells[i - 1][0] == "lit" and cells[i - 1][1] not in allcs)
                if runs_include(runs, c[1].lang) and nxt_lit_ok and prv_lit_ok:
                    out.append(Str([c]))
                else:
                    out.append(Frag("findall(%r) cuts <%s> into pieces" % (pattern, c[1].name)))
            i += 1
            continue
        if c[1] in allcs:
            # literal stretch: fold concretely
            j = i
            while j < len(cells) and cells[j][0] == "lit" and cells[j][1] in allcs:
                j += 1
            if j < len(cells) and cells[j][0] == "sym" and cells[j][1].charset & allcs:
                out.append(Frag("findall(%r) glues literal text to <%s>" % (pattern, cells[j][1].name)))
                i = j + 1
                continue
            import re as _re

            out += [Str.lit(m) for m in _re.findall(pattern, "".join(x[1] for x in cells[i:j]))]
            i = j
            continue
        i += 1
    return ListV(out)


def str_index(s, idx):
    cells = s.cells()

    def width(c):
        return 1 if c[0] == "lit" else c[1].length

    if isinstance(idx, int):
        seq = cells if idx >= 0 else cells[::-1]
        k = idx if idx >= 0 else -idx - 1
        for c in seq:
            w = width(c)
            if w is None:
                return Frag("index %d of %s depends on the length of <%s>" % (idx, s.text(), c[1].name))
            if k < w:
                return Str([c]) if w == 1 else Frag("index %d falls inside <%s>" % (idx, c[1].name))
            k -= w
        return Raised(None, "string index out of range")
    raise AnalysisError("string index %r" % (idx,))


def str_slice(s, lo, hi):
    cells = s.cells()

    def width(c):
        return 1 if c[0] == "lit" else c[1].length

    def cut(n):
        """number of cells making up exactly |n| characters from the left (n >= 0) or right (n < 0); None = Frag"""
        seq = cells if n >= 0 else cells[::-1]
        k, used = abs(n), 0
        for c in seq:
            if k == 0:
                break
            w = width(c)
            if w is None or w > k:
                return None
            k -= w
            used += 1
        return used

    a = 0
    b = len(cells)
    if lo is not None:
        u = cut(lo)
        if u is None:
            return Frag("slice [%s:%s] of %s cuts through an atom" % (lo, hi, s.text()))
        a = u if lo >= 0 else len(cells) - u
    if hi is not None:
        u = cut(hi)
        if u is None:
            return Frag("slice [%s:%s] of %s cuts through an atom" % (lo, hi, s.text()))
        b = u if hi >= 0 else len(cells) - u
    return Str(cells[a:b])


def str_len(s):
    n = 0
    for c in s.cells():
        w = 1 if c[0] == "lit" else c[1].length
        if w is None:
            return None
        n += w
    return n


# ------------------------------------------------------------------ evaluator
class Undecided(AnalysisError):
    pass


class NonTermination(Exception):
    """an evaluated loop exceeded its budget of rounds"""


class _Raise(Exception):
    def __init__(self, node, what, exc=None):
        Exception.__init__(self, what)
        self.node, self.what, self.exc = node, what, exc


class FuncV:
    def __init__(self, fn, env=None, self_val=None, cls=None, mod=None):
        self.fn, self.env, self.self_val, self.cls, self.mod = fn, env, self_val, cls, mod


class ModRef:
    def __init__(self, name):
        self.name = name


class PyFunc:
    """a model function supplied by the checker (for outside objects such as a spatial tree): fn(args, kwargs)"""

    def __init__(self, fn, name="model"):
        self.fn, self.name = fn, name

    def __repr__(self):
        return "<%s>" % self.name


class Builtin:
    def __init__(self, name):
        self.name = name


class PatternV:
    def __init__(self, pattern):
        self.pattern = pattern


BUILTINS = {"format", "ord", "chr", "object", "slice", "divmod", "next", "iter", "reversed", "print", "input", "id", "setattr", "hasattr", "getattr", "callable", "round", "abs", "super", "map", "filter", "str", "int", "len", "isinstance", "bool", "list", "tuple", "enumerate", "zip", "all", "any", "float", "repr", "type", "dict", "set", "range", "sorted", "min", "max"}


def decorators(fn):
    return {norm(d) for d in fn.decorator_list}


class Ev:
    """evaluates functions of the repository over abstract values; one instance per shape case"""

    def __init__(self, repo, opaque_calls=()):
        self.repo = repo
        self.opaque_calls = set(opaque_calls)  # "Class.method" evaluated to Ctor(name, args) without looking inside
        self.stubs = {}  # "Class.method" -> callable(bound arguments) giving the abstract result
        self.syms = {}  # name -> Sym, for atoms used as dictionary keys
        self.enum_keys = {}  # (class name, member name) -> EnumMember used as a dictionary key
        self.ids = {}  # python id -> IdV, for id(x) used as dictionary keys
        self.input_reply = None  # what input() answers (Str), when the evaluated code may ask the user
        self.loop_budget = 200
        self.step_budget = 60000  # statements one evaluation may execute: a search whose frontier keeps growing ends here
        self.module_cache = {}
        self.class_attrs = {}
        self.memo_calls = {}
        self.decorated_cache = {}
        self.ctor_models = {}  # class name -> python function(args, kwargs) giving the model of the constructed object
        self.model_calls = {}  # dotted name of an outside callable -> python function(args, kwargs) modelling it
        self.assume_valid = True  # argument validators (commonroad.common.validity.is_*) hold for the symbolic inputs
        self.instantiate = set()  # class names whose constructor is evaluated (an Obj is built) instead of recorded
        self.oracle = None  # callable(kind, a, b) -> True / False / None: decides tests on atoms for the shape case
        self.pure_modules = set()  # roots of outside modules whose functions are uninterpreted pure functions
        self.pure_calls = set()  # dotted names of outside functions treated as uninterpreted pure functions (Term)
        self.trace = []  # (what, node) notes: pattern methods used, skipped asserts
        self.depth = 0

    # ---- truth / comparison
    def truth(self, v, node=None):
        if isinstance(v, bool):
            return v
        if isinstance(v, NoneT):
            return False
        if isinstance(v, (int, float)):
            return v != 0
        if isinstance(v, Str):
            if v.is_lit():
                return bool(v.text())
            if any(p[0] == "lit" or sum(r[1] for r in p[1].lang) >= 1 for p in v.pieces):
                return True
        if isinstance(v, ListV):
            return bool(v.items)
        if isinstance(v, DictV):
            return bool(v.d)
        if isinstance(v, Sym) and v.kind == "int" and v.positive:
            return True
        if self.oracle is not None and (isinstance(v, (Sym, Term, Obj))):
            r = self.oracle("truth", v, None)
            if r is not None:
                return r
        if isinstance(v, Ctor) and v.kind == "call":
            if self.oracle is not None:
                r = self.oracle("truth", v, None)
                if r is not None:
                    return r
            raise Undecided("truth of the uninterpreted result %r%s" % (v, " at line %s" % node.lineno if node is not None else ""))
        if isinstance(v, ElemV):
            return bool(v.children.items)  # (l)xml: an element is true iff it has children
        if isinstance(v, Lenient):
            raise Undecided("truth of the unmodelled object %r" % (v,))
        if isinstance(v, (Obj, MatchV, EnumMember, Ctor, ClassRef, FuncV, PatternV, PyFunc, PartialV)):
            return True
        raise Undecided("truth of %r is not decidable%s" % (v, " at line %s" % node.lineno if node is not None else ""))

    def equal(self, a, b):
        """True / False / raises Undecided"""
        if isinstance(a, Frag) or isinstance(b, Frag):
            raise Undecided("comparison with a fragment %r / %r" % (a, b))
        if same(a, b):
            return True
        if isinstance(a, Str) and isinstance(b, Str):
            if a.is_lit() and b.is_lit():
                return False
            la, lb = str_len(a), str_len(b)
            if la is not None and lb is not None and la != lb:
                return False
            raise Undecided("%r == %r" % (a, b))
        if isinstance(a, Sym) or isinstance(b, Sym):
            raise Undecided("%r == %r" % (a, b))
        return False

    def compare(self, op, a, b, node):
        if self.oracle is not None and not isinstance(op, (ast.Is, ast.IsNot, ast.In, ast.NotIn)) and (isinstance(a, (Sym, Term)) or isinstance(b, (Sym, Term)) or (isinstance(a, Ctor) and a.kind == "call") or (isinstance(b, Ctor) and b.kind == "call")):
            r = self.oracle(type(op).__name__, a, b)
            if r is not None:
                return r
        if isinstance(op, (ast.Is, ast.IsNot)):
            if isinstance(a, NoneT) or isinstance(b, NoneT):
                r = a is b
            elif isinstance(a, bool) or isinstance(b, bool):
                r = isinstance(a, bool) and isinstance(b, bool) and a == b
            elif isinstance(a, EnumMember) and isinstance(b, EnumMember):
                r = same(a, b)  # enum members are singletons
            elif isinstance(a, ClassRef) and isinstance(b, ClassRef):
                r = a.cls is b.cls
            elif isinstance(a, Builtin) and isinstance(b, Builtin):
                if "number" in (a.name, b.name) and {a.name, b.name} & {"int", "float"}:
                    raise Undecided("whether a number is an int or a float")
                r = a.name == b.name
            else:
                r = a is b
            return r if isinstance(op, ast.Is) else not r
        if isinstance(op, (ast.Eq, ast.NotEq)):
            r = self.equal(a, b)
            return r if isinstance(op, ast.Eq) else not r
        if isinstance(op, (ast.In, ast.NotIn)):
            if isinstance(b, ListV):
                und = None
                for x in b.items:
                    try:
                        if self.equal(a, x):
                            return isinstance(op, ast.In)
                    except Undecided as e:
                        und = e
                if und is not None:
                    raise und
                return isinstance(op, ast.NotIn)
            if isinstance(b, DictV):
                k = self.key_of(a)
                return (k in b.d) == isinstance(op, ast.In)
            if isinstance(b, Str) and isinstance(a, Str) and a.is_lit() and b.is_lit():
                return (a.text() in b.text()) == isinstance(op, ast.In)
            if isinstance(b, Str) and isinstance(a, Str) and a.is_lit() and _sym_safe(b, a.text()):
                return any(p[0] == "lit" and a.text() in p[1] for p in b.pieces) == isinstance(op, ast.In)
            if self.oracle is not None:
                r = self.oracle("In", a, b)
                if r is not None:
                    return r == isinstance(op, ast.In)
            raise Undecided("membership %r in %r" % (a, b))
        if isinstance(a, SetV) and isinstance(b, SetV) and isinstance(op, (ast.Lt, ast.LtE, ast.Gt, ast.GtE)):
            sub = all(any(same(x, y) for y in b.items) for x in a.items)
            sup = all(any(same(x, y) for y in a.items) for x in b.items)
            return {ast.LtE: sub, ast.GtE: sup, ast.Lt: sub and not sup, ast.Gt: sup and not sub}[type(op)]
        # order
        dunder = {ast.Lt: ("__lt__", "__gt__"), ast.Gt: ("__gt__", "__lt__"), ast.LtE: ("__le__", "__ge__"), ast.GtE: ("__ge__", "__le__")}.get(type(op))
        if dunder is not None:
            # an object of a class of the repository that defines the comparison (reflected when only the right one does)
            for x, y, name in ((a, b, dunder[0]), (b, a, dunder[1])):
                if isinstance(x, Obj) and x.cls is not None and not isinstance(x, Lenient):
                    owner, fn = self.repo.find_method(x.cls, name)
                    if fn is not None:
                        return self.truth(self.call_fn(FuncV(fn, self_val=x, cls=owner, mod=owner.mod), [y], {}, node), node)
        if isinstance(a, (int, float)) and not isinstance(a, bool) and isinstance(b, (int, float)) and not isinstance(b, bool):
            return {ast.Lt: a < b, ast.LtE: a <= b, ast.Gt: a > b, ast.GtE: a >= b}[type(op)]
        if isinstance(a, Sym) and a.positive and isinstance(b, (int, float)):
            if (isinstance(op, ast.Gt) and b <= 0) or (isinstance(op, ast.GtE) and b <= 1):
                return True
            if (isinstance(op, ast.Lt) and b <= 1) or (isinstance(op, ast.LtE) and b <= 0):
                return False
        if isinstance(b, Sym) and b.positive and isinstance(a, (int, float)):
            if (isinstance(op, ast.Lt) and a <= 0) or (isinstance(op, ast.LtE) and a <= 1):
                return True
            if (isinstance(op, ast.Gt) and a <= 1) or (isinstance(op, ast.GtE) and a <= 0):
                return False
        raise Undecided("order comparison %r %s %r at line %d" % (a, type(op).__name__, b, node.lineno))

    def key_of(self, v):
        if isinstance(v, Str):
            if not v.is_lit():
                raise Undecided("dictionary key %r" % v)
            return v.text()
        if isinstance(v, (int, bool, str)):
            return v
        if isinstance(v, EnumMember):
            self.enum_keys[(v.cls.name, v.name)] = v
            return (v.cls.name, v.name)
        if isinstance(v, Sym):
            self.syms[v.name] = v
            return ("sym", v.name)
        if isinstance(v, TupV):
            return tuple(self.key_of(x) for x in v.items)
        if isinstance(v, IdV):
            self.ids[id(v.of)] = v
            return ("id", id(v.of))
        raise Undecided("dictionary key %r" % (v,))

    def unkey(self, k):
        if isinstance(k, str):
            return Str.lit(k)
        if isinstance(k, tuple) and k in self.enum_keys:
            return self.enum_keys[k]
        if isinstance(k, tuple) and len(k) == 2 and k[0] == "sym":
            return self.syms.get(k[1], Frag("key %r" % (k,)))
        if isinstance(k, tuple) and len(k) == 2 and k[0] == "id":
            return self.ids.get(k[1], Frag("key %r" % (k,)))
        return k

    def to_str(self, v):
        if isinstance(v, Str):
            return v
        if isinstance(v, Sym):
            return Str([("sym", v)])
        if isinstance(v, NoneT):
            return Str.lit("None")
        if isinstance(v, bool) or isinstance(v, (int, float)):
            return Str.lit(str(v))
        if isinstance(v, Frag):
            return v
        if isinstance(v, Obj) and v.cls is not None and "__str__" in v.cls.methods:
            return self.call_fn(FuncV(v.cls.methods["__str__"], self_val=v, cls=v.cls, mod=v.cls.mod), [], {}, None)
        if isinstance(v, Obj) and "__str__" in v.fields:
            return v.fields["__str__"]
        raise AnalysisError("str() of %r is not modelled" % (v,))

    def to_int(self, v):
        if self.oracle is not None and self.outside_value(v):
            r = self.oracle("truth", v, None)
            if isinstance(r, bool):
                return int(r)  # int(<truth value the case decides>)
        if isinstance(v, bool):
            return int(v)
        if isinstance(v, int):
            return v
        if isinstance(v, Sym) and v.kind == "int":
            return v
        if isinstance(v, Frag):
            return v
        if isinstance(v, Str):
            if v.is_lit():
                try:
                    return int(v.text())
                except ValueError:
                    raise _Raise(None, "int(%r)" % v.text())
            if len(v.pieces) == 1 and v.pieces[0][0] == "sym":
                s = v.pieces[0][1]
                if s.kind == "int":
                    return s
                if s.charset <= set("0123456789"):
                    return Frag("int(<%s>) of a text field" % s.name)
                raise _Raise(None, "int(<%s>): the field is not numeric" % s.name)
            if all(p[0] == "sym" and p[1].kind == "int" or p[0] == "lit" and p[1].isdigit() for p in v.pieces):
                return Frag("int(%s) glues several numbers" % v.text())
            raise _Raise(None, "int(%s)" % v.text())
        raise AnalysisError("int() of %r is not modelled" % (v,))

    # ---- names
    def lookup(self, name, env, mod, node):
        e = env
        while e is not None:
            if name in e:
                return e[name]
            cb = e.get("__clsbody__")
            if cb is not None and name in cb.class_assigns and cb.class_assigns[name] is not None:
                # a name of the class body used in a later statement of that body
                return self.ev(cb.class_assigns[name], {"__mod__": cb.mod, "__clsbody__": cb}, cb.mod)
            e = e.get("__outer__")
        if name in mod.classes:
            return ClassRef(mod.classes[name])
        if name in mod.functions:
            return FuncV(mod.functions[name], mod=mod)
        if name in mod.assigns:
            return self.module_value(mod, name)
        if name in mod.imports:
            m, orig = mod.imports[name]
            if orig is None:
                return ModRef(m)
            c = self.repo.resolve_class(mod, name)
            if c is not None:
                return ClassRef(c)
            rel = m.replace(".", "/") + ".py"
            try:
                m2 = self.repo.mod(rel)
            except Exception:
                m2 = self.repo._by_modname.get(m)  # a package: its __init__ module
            if m2 is not None:
                if orig in m2.functions:
                    return FuncV(m2.functions[orig], mod=m2)
                if orig in m2.assigns:
                    return self.module_value(m2, orig)
            return ModRef(m + "." + orig)
        if name in BUILTINS:
            return Builtin(name)
        raise AnalysisError("name %s is not resolvable at line %d" % (name, node.lineno))

    # ---- attribute access
    def getattr(self, v, attr, node, mod):
        if isinstance(v, Obj):
            if isinstance(v, Lenient) and attr not in v.fields and attr not in v.dyn:
                v.fields[attr] = Lenient("%s.%s" % (v.label, attr), v.root)
                return v.fields[attr]
            if attr == "__dict__":
                return DictV.alias(v.fields)
            if attr == "__class__" and v.cls is not None:
                return ClassRef(v.cls)
            if attr in v.dyn:
                return v.dyn[attr]()
            if attr in v.fields:
                return v.fields[attr]
            c = v.cls
            if c is not None:
                owner, p = self.repo.find_prop(c, attr) if self.repo.find_prop(c, attr) else (None, None)
                if p and p.get("get") is not None:
                    return self.call_fn(FuncV(p["get"], self_val=v, cls=owner, mod=owner.mod), [], {}, node)
                got = self.repo.find_method(c, attr)
                if got[1] is not None:
                    owner, fn = got
                    if decorators(fn) & {"cached_property", "functools.cached_property"}:
                        # computed at the first read and kept in the instance under its own name
                        v.fields[attr] = self.call_fn(FuncV(fn, self_val=v, cls=owner, mod=owner.mod), [], {}, node)
                        return v.fields[attr]
                    return self.bind(fn, owner, v)
                for c_ in self.repo.mro(c):
                    if attr in c_.class_assigns and c_.class_assigns[attr] is not None:
                        if (id(c_), attr) not in self.class_attrs:
                            # evaluated once: the value belongs to the class, every instance sees the same object
                            self.class_attrs[(id(c_), attr)] = self.ev(c_.class_assigns[attr], {"__mod__": c_.mod, "__clsbody__": c_}, c_.mod)
                        return self.class_attrs[(id(c_), attr)]
            if attr.startswith("_") and attr[1:] in v.fields:
                return v.fields[attr[1:]]
            if "_" + attr in v.fields:
                return v.fields["_" + attr]  # a plain instance attribute given under its private spelling
            if v.closed:
                raise _Raise(node, "%r has no attribute %s" % (v, attr), "AttributeError")
            raise AnalysisError("attribute %s of %r is not modelled (line %s)" % (attr, v, getattr(node, "lineno", "?")))
        if isinstance(v, NamedTupV):
            if attr in v.names:
                return v.items[v.names.index(attr)]
            if attr == "_fields":
                return TupV([Str.lit(n) for n in v.names])
            if attr == "_asdict":
                return PyFunc(lambda a, k: DictV(dict(zip(v.names, v.items))), "_asdict")
            if attr == "_replace":
                return PyFunc(lambda a, k: NamedTupV(v.cls, v.names, [k.get(n, x) for n, x in zip(v.names, v.items)]), "_replace")
            if hasattr(v.cls, "methods"):
                # a typing.NamedTuple class of the repository with methods / properties of its own
                pr = self.repo.find_prop(v.cls, attr)
                if pr and pr[1] and pr[1].get("get") is not None:
                    return self.call_fn(FuncV(pr[1]["get"], self_val=v, cls=pr[0], mod=pr[0].mod), [], {}, node)
                got = self.repo.find_method(v.cls, attr)
                if got[1] is not None:
                    return self.bind(got[1], got[0], v)
            return ("method", v, attr)
        if isinstance(v, ElemV):
            if attr in ("tag", "text", "tail", "attrib"):
                return getattr(v, attr)
            return ("method", v, attr)
        if isinstance(v, ClassRef):
            c = v.cls
            if (id(c), attr) in self.class_attrs:
                return self.class_attrs[(id(c), attr)]
            if c.is_enum and attr == "__members__":
                return DictV({k: EnumMember(c, k, self.ev(x, {"__mod__": c.mod}, c.mod)) for k, x in c.enum_members().items()})
            if c.is_enum and attr in c.enum_members():
                return EnumMember(c, attr, self.ev(c.enum_members()[attr], {"__mod__": c.mod}, c.mod))
            powner, pr = self.repo.find_prop(c, attr)
            if pr:
                return PropV(powner, pr)
            if attr == "__new__":
                return Builtin("__new__")
            if attr == "__name__":
                return Str.lit(c.name)
            got = self.repo.find_method(c, attr)
            if got[1] is not None:
                owner, fn = got
                return self.bind(fn, owner, None, via_class=v)
            if attr in c.class_assigns and c.class_assigns[attr] is not None:
                return self.ev(c.class_assigns[attr], {"__mod__": c.mod, "__clsbody__": c}, c.mod)
            raise AnalysisError("class attribute %s.%s is not modelled" % (c.name, attr))
        if isinstance(v, EnumMember):
            if attr == "name":
                return Str.lit(v.name)
            if attr == "value":
                return v.value
            owner, pr = self.repo.find_prop(v.cls, attr)
            if pr and pr.get("get") is not None:
                return self.call_fn(FuncV(pr["get"], self_val=v, cls=owner, mod=owner.mod), [], {}, node)
            owner, fn = self.repo.find_method(v.cls, attr)
            if fn is not None:
                return self.bind(fn, owner, v)
            raise AnalysisError("enum attribute .%s" % attr)
        if isinstance(v, ModRef):
            if v.name in ("math", "numpy", "np", "npy") and attr in ("pi", "e", "tau", "inf"):
                import math as _math

                return {"pi": _math.pi, "e": _math.e, "tau": _math.tau, "inf": _math.inf}[attr]  # the constants of the numeric libraries
            rm = self.repo._by_modname.get(v.name)
            if rm is not None:
                # a module of the repository reached through its name: its classes, functions and constants
                if attr in rm.classes:
                    return ClassRef(rm.classes[attr])
                if attr in rm.functions and v.name.endswith(".validity"):
                    return FuncV(rm.functions[attr], mod=rm)  # type predicates; other functions stay uninterpreted calls
                if attr in rm.assigns:
                    return self.ev(rm.assigns[attr], {"__mod__": rm}, rm)
            return ModRef(v.name + "." + attr)
        if isinstance(v, PropV) and attr in ("fget", "fset", "fdel"):
            fn_ = v.parts.get({"fget": "get", "fset": "set", "fdel": "del"}[attr])
            if fn_ is None:
                return NONE
            return FuncV(fn_, cls=v.owner, mod=v.owner.mod)
        if isinstance(v, NoneT):
            raise _Raise(node, "'NoneType' object has no attribute %r" % attr, "AttributeError")
        if isinstance(v, FuncV) and attr in ("__name__", "__qualname__"):
            return Str.lit(v.fn.name)
        return ("method", v, attr)

    def bind(self, fn, owner, self_val, via_class=None):
        d = decorators(fn)
        if "staticmethod" in d:
            return FuncV(fn, cls=owner, mod=owner.mod)
        if "classmethod" in d:
            return FuncV(fn, self_val=via_class or ClassRef(getattr(self_val, "cls", None) or owner), cls=owner, mod=owner.mod)
        return FuncV(fn, self_val=self_val, cls=owner, mod=owner.mod)

    # ---- calls
    def call_fn(self, f, args, kwargs, node):
        fn = f.fn
        qn = "%s.%s" % (f.cls.name, fn.name) if f.cls is not None else fn.name
        if self.assume_valid and f.mod is not None and f.mod.rel.endswith("common/validity.py") and fn.name.startswith("is_"):
            return True  # the symbolic arguments stand for valid inputs
        if qn in self.stubs:
            return self.stubs[qn](self.bind_args(fn, args, kwargs, receiver=f.self_val, drop_first=False, mod=f.mod))
        if qn in self.opaque_calls:
            bound = self.bind_args(fn, args, kwargs, receiver=f.self_val, drop_first=False, mod=f.mod)
            r = Ctor(qn, bound, kind="call")
            self.trace.append(("call", node, r))
            return r
        if not getattr(f, "raw", False):
            wrapped = self.decorated(f)
            if wrapped is not None:
                return self.apply(wrapped, ([f.self_val] if f.self_val is not None else []) + list(args), kwargs, node, f.mod)
        memo_key = None
        if any(ast.unparse(d).split("(")[0] in ("functools.lru_cache", "lru_cache", "functools.cache", "cache") for d in fn.decorator_list):
            # a memoised function: one result object per argument tuple, as at run time
            try:
                memo_key = (id(fn), tuple(self.key_of(a) for a in args), tuple(sorted((k, self.key_of(v)) for k, v in kwargs.items())))
            except Exception:
                memo_key = None
            if memo_key is not None and memo_key in self.memo_calls:
                return self.memo_calls[memo_key]
        self.depth += 1
        if self.depth > 12:
            raise AnalysisError("call depth exceeded in %s" % qn)
        try:
            env = {"__outer__": f.env, "__mod__": f.mod, "__cls__": f.cls}
            env.update(self.bind_args(fn, args, kwargs, receiver=f.self_val, mod=f.mod))
            is_gen = any(isinstance(n, (ast.Yield, ast.YieldFrom)) for n in _walk_own(fn))
            if is_gen:
                env["__yield__"] = []
            r = self.block(fn.body, env, f.mod)
            if is_gen:
                return IterV(env["__yield__"])  # a generator is modelled by the list of what it yields
            out = r[1] if r is not None else NONE
            if memo_key is not None:
                self.memo_calls[memo_key] = out
            return out
        finally:
            self.depth -= 1

    def decorated(self, f):
        """what a decorator *of the repository* (a module-level function of the defining module) makes of the function:
        the decorator is evaluated on the undecorated function, once per function"""
        fn = f.fn
        decos = [d for d in fn.decorator_list if isinstance(d, ast.Name) and f.mod is not None and d.id in f.mod.functions]
        if not decos or len(decos) != len([d for d in fn.decorator_list if ast.unparse(d).split("(")[0] not in ("staticmethod", "classmethod", "abstractmethod", "abc.abstractmethod")]):
            return None
        if id(fn) not in self.decorated_cache:
            raw = FuncV(fn, self_val=None, cls=f.cls, mod=f.mod)
            raw.raw = True
            cur = raw
            for d in reversed(decos):
                cur = self.apply(FuncV(f.mod.functions[d.id], mod=f.mod), [cur], {}, d, f.mod)
            self.decorated_cache[id(fn)] = cur
        return self.decorated_cache[id(fn)]

    def bind_args(self, fn, args, kwargs, receiver=None, drop_first=False, mod=None):
        """parameter name -> value.  receiver: value bound to the first parameter (self / cls); drop_first: the first
        parameter is bound by the runtime and of no interest (constructor calls, opaque calls)"""
        a = fn.args
        params = [x.arg for x in a.posonlyargs + a.args]
        defaults = dict(zip(params[len(params) - len(a.defaults):], a.defaults)) if a.defaults else {}
        out = {}
        names = list(params)
        if receiver is not None:
            out[names[0]] = receiver
            names = names[1:]
        elif drop_first:
            names = names[1:]
        if len(args) > len(names):
            if a.vararg is None:
                raise AnalysisError("too many arguments for %s" % fn.name)
            out[a.vararg.arg] = TupV(list(args[len(names):]))
            args = args[: len(names)]
        elif a.vararg is not None:
            out[a.vararg.arg] = TupV([])
        for p, v in zip(names, args):
            out[p] = v
        extra_kw = {}
        for k, v in kwargs.items():
            if k in out or (k not in names and a.kwarg is None and k not in [x.arg for x in a.kwonlyargs]):
                raise _Raise(None, "unexpected or duplicate argument %s for %s" % (k, fn.name))
            if k not in names and k not in [x.arg for x in a.kwonlyargs]:
                extra_kw[k] = v
            else:
                out[k] = v
        if a.kwarg is not None:
            out[a.kwarg.arg] = DictV(extra_kw)
        for p in names:
            if p not in out:
                if p not in defaults:
                    raise _Raise(None, "missing argument %s for %s" % (p, fn.name))
                try:
                    out[p] = self.ev(defaults[p], {"__mod__": mod}, mod)
                except AnalysisError:
                    out[p] = Ctor("default:" + norm(defaults[p]), {})
        for kw, d in zip(a.kwonlyargs, a.kw_defaults):
            if kw.arg not in out and d is not None:
                out[kw.arg] = self.ev(d, {"__mod__": mod}, mod)
        if drop_first and receiver is not None:
            out.pop(params[0], None)
        return out

    # ---- statements
    def block(self, stmts, env, mod):
        for st in stmts:
            r = self.stmt(st, env, mod)
            if r is not None:
                return r
        return None

    def assign(self, target, v, env, mod):
        if isinstance(target, ast.Name):
            env[target.id] = v
        elif isinstance(target, (ast.Tuple, ast.List)):
            if isinstance(v, Frag):
                for t in target.elts:
                    self.assign(t, v, env, mod)
                return
            if isinstance(v, Ctor):
                for i, t in enumerate(target.elts):
                    self.assign(t, Ctor("%s[%d]" % (v.name, i), v.args), env, mod)
                return
            if isinstance(v, Obj) and v.cls is not None and self.repo.find_method(v.cls, "__iter__")[1] is not None:
                v = ListV(self.iterate(v, target))  # an object that can be iterated is unpacked through its __iter__
            if not isinstance(v, ListV):
                raise AnalysisError("unpacking %r at line %d" % (v, target.lineno))
            stars = [i for i, t in enumerate(target.elts) if isinstance(t, ast.Starred)]
            if len(stars) == 1:
                # a, *rest, z = items
                i = stars[0]
                n_after = len(target.elts) - i - 1
                if len(v.items) < len(target.elts) - 1:
                    raise _Raise(target, "not enough values to unpack", "ValueError")
                for t, x in zip(target.elts[:i], v.items[:i]):
                    self.assign(t, x, env, mod)
                self.assign(target.elts[i].value, ListV(list(v.items[i : len(v.items) - n_after])), env, mod)
                for t, x in zip(target.elts[i + 1 :], v.items[len(v.items) - n_after :] if n_after else []):
                    self.assign(t, x, env, mod)
                return
            if len(v.items) != len(target.elts):
                raise _Raise(target, "cannot unpack %d values into %d names" % (len(v.items), len(target.elts)))
            for t, x in zip(target.elts, v.items):
                self.assign(t, x, env, mod)
        elif isinstance(target, ast.Attribute):
            o = self.ev(target.value, env, mod)
            if isinstance(o, ElemV) and target.attr in ("text", "tail", "tag"):
                setattr(o, target.attr, v)
                return
            if isinstance(o, ClassRef):
                # a class attribute assigned at run time (a class used as a namespace of settings)
                self.class_attrs[(id(o.cls), target.attr)] = v
                return
            if not isinstance(o, Obj):
                raise AnalysisError("attribute store on %r at line %d" % (o, target.lineno))
            if o.cls is not None and not isinstance(o, Lenient):
                sowner, sfn = self.repo.find_method(o.cls, "__setattr__")
                if sfn is not None:
                    # a class that defines __setattr__ receives every attribute assignment
                    self.call_fn(FuncV(sfn, self_val=o, cls=sowner, mod=sowner.mod), [Str.lit(target.attr), v], {}, target)
                    return
            if o.cls is not None:
                owner, p = self.repo.find_prop(o.cls, target.attr)
                if p and p.get("set") is not None:
                    self.call_fn(FuncV(p["set"], self_val=o, cls=owner, mod=owner.mod), [v], {}, target)
                    return
            o.fields[target.attr] = v
            if isinstance(o, Lenient):
                o.root.log.append(("%s.%s =" % (o.label, target.attr), [v], {}))
            self.trace.append(("store", target, (o, target.attr, v)))
        elif isinstance(target, ast.Subscript) and isinstance(target.slice, ast.Tuple) and len(target.slice.elts) == 2 and self._is_matrix(self.ev(target.value, env, mod)):
            # m[i, j] = x / m[a:b, c:d] = rows: cells of a modelled two-dimensional array
            o = self.ev(target.value, env, mod)
            nrows, ncols = len(o.items), len(o.items[0].items)

            def span(ix, n):
                if isinstance(ix, ast.Slice):
                    b = [None if x is None else self.ev(x, env, mod) for x in (ix.lower, ix.upper, ix.step)]
                    if not all(x is None or (isinstance(x, int) and not isinstance(x, bool)) for x in b):
                        raise Undecided("slice bounds %r" % (b,))
                    return list(range(n))[slice(*b)], True
                i = self.ev(ix, env, mod)
                if not isinstance(i, int) or isinstance(i, bool):
                    raise Undecided("array index %r" % (i,))
                return [i if i >= 0 else n + i], False

            (rs, r_sl), (cs, c_sl) = span(target.slice.elts[0], nrows), span(target.slice.elts[1], ncols)
            for a_, r in enumerate(rs):
                for b_, c in enumerate(cs):
                    cell = v
                    if r_sl and isinstance(cell, ListV):
                        cell = cell.items[a_]
                    if c_sl and isinstance(cell, ListV):
                        cell = cell.items[b_]
                    elif not r_sl and c_sl and isinstance(v, ListV):
                        cell = v.items[b_]
                    o.items[r].items[c] = cell
        elif isinstance(target, ast.Subscript):
            o = self.ev(target.value, env, mod)
            k = self.ev(target.slice, env, mod)
            if isinstance(o, DictV):
                o.d[self.key_of(k)] = v
            elif isinstance(o, ListV) and isinstance(k, int):
                o.items[k] = v
            else:
                raise AnalysisError("subscript store at line %d" % target.lineno)
        else:
            raise AnalysisError("assignment target %s" % norm(target))

    def stmt(self, st, env, mod):
        self.steps = getattr(self, "steps", 0) + 1
        if self.steps > self.step_budget:
            raise NonTermination("more than %d statements evaluated (line %d)" % (self.step_budget, getattr(st, "lineno", 0)))
        if isinstance(st, ast.Expr):
            if isinstance(st.value, ast.Constant):
                return None
            self.ev(st.value, env, mod)
            return None
        if isinstance(st, ast.Assign):
            v = self.ev(st.value, env, mod)
            for t in st.targets:
                self.assign(t, v, env, mod)
            return None
        if isinstance(st, ast.AnnAssign):
            if st.value is not None:
                self.assign(st.target, self.ev(st.value, env, mod), env, mod)
            return None
        if isinstance(st, ast.AugAssign):
            cur = self.ev(ast.copy_location(_load(st.target), st.target), env, mod)
            v = self.binop(st.op, cur, self.ev(st.value, env, mod), st)
            if isinstance(cur, ListV) and "ndarray" in getattr(cur, "ext_types", ()) and isinstance(v, ListV) and len(v.items) == len(cur.items):
                cur.items[:] = v.items  # an array is changed in place: every holder of it sees the new numbers
                v = cur
            elif isinstance(cur, ListV) and isinstance(st.op, ast.Add) and not isinstance(cur, TupV):
                cur.items[:] = v.items  # in-place extension keeps aliases
                v = cur
            self.assign(st.target, v, env, mod)
            return None
        if isinstance(st, ast.If):
            return self.block(st.body if self.truth(self.ev(st.test, env, mod), st) else st.orelse, env, mod)
        if isinstance(st, ast.For):
            src = self.ev(st.iter, env, mod)
            if type(src) is ListV and not isinstance(src, RepeatV):
                # a list is iterated by position over the list as it is *then*: removing from it inside the loop
                # makes the loop skip the element that moves into the freed place (as in Python)
                def live(lst=src):
                    i = 0
                    while i < len(lst.items):
                        yield lst.items[i]
                        i += 1
                        if i > 4096:
                            raise AnalysisError("loop over a list that keeps growing")

                it = live()
            else:
                it = self.iterate(src, st)
            for x in it:
                self.assign(st.target, x, env, mod)
                r = self.block(st.body, env, mod)
                if r is not None:
                    if r[0] == "break":
                        break
                    if r[0] == "continue":
                        continue
                    return r
            else:
                return self.block(st.orelse, env, mod)
            return None
        if isinstance(st, ast.While):
            # evaluated while every test is decidable in the case at hand; a loop that does not end within the budget
            # is reported as such (NonTermination), which a rule may turn into a finding
            rounds = 0
            while self.truth(self.ev(st.test, env, mod), st):
                rounds += 1
                if rounds > self.loop_budget:
                    raise NonTermination("the loop at line %d has not ended after %d rounds" % (st.lineno, self.loop_budget))
                r = self.block(st.body, env, mod)
                if r is not None:
                    if r[0] == "break":
                        break
                    if r[0] == "continue":
                        continue
                    return r
            else:
                return self.block(st.orelse, env, mod)
            return None
        if isinstance(st, ast.Return):
            return ("ret", self.ev(st.value, env, mod) if st.value is not None else NONE)
        if isinstance(st, ast.Raise):
            exc = None
            if st.exc is not None:
                f = st.exc.func if isinstance(st.exc, ast.Call) else st.exc
                exc = norm(f).split(".")[-1]
            raise _Raise(st, norm(st.exc)[:80] if st.exc is not None else "raise", exc)
        if isinstance(st, ast.Assert):
            try:
                ok = self.truth(self.ev(st.test, env, mod), st)
            except AnalysisError as e:
                self.trace.append(("assert-skipped", st, str(e)))
                return None
            if not ok:
                raise _Raise(st, "assert %s" % norm(st.test)[:80], "AssertionError")
            return None
        if isinstance(st, ast.Pass):
            return None
        if isinstance(st, ast.Break):
            return ("break", None)
        if isinstance(st, ast.Continue):
            return ("continue", None)
        if isinstance(st, (ast.FunctionDef,)):
            env[st.name] = FuncV(st, env=env, mod=mod, cls=None)
            return None
        if isinstance(st, ast.Try):
            try:
                r = self.block(st.body, env, mod)
                if r is None:
                    r = self.block(st.orelse, env, mod)
            except _Raise as x:
                r = "unhandled"
                for h in st.handlers:
                    names = []
                    if h.type is not None:
                        names = [norm(t).split(".")[-1] for t in (h.type.elts if isinstance(h.type, ast.Tuple) else [h.type])]
                    if h.type is None or "Exception" in names or "BaseException" in names or (x.exc is not None and x.exc in names):
                        if x.exc is None and h.type is not None and "Exception" not in names and "BaseException" not in names:
                            continue
                        if h.name:
                            env[h.name] = Ctor(x.exc or "Exception", {"what": Str.lit(x.what)}, kind="object")
                        r = self.block(h.body, env, mod)
                        break
                if r == "unhandled":
                    if x.exc is None and st.handlers:
                        raise AnalysisError("exception of unknown type (%s) meets handlers at line %d" % (x.what, st.lineno))
                    self.block(st.finalbody, env, mod)
                    raise
            fin = self.block(st.finalbody, env, mod)
            return fin if fin is not None else r
        if isinstance(st, ast.With) and len(st.items) == 1 and st.items[0].optional_vars is None and isinstance(st.items[0].context_expr, ast.Call) and norm(st.items[0].context_expr.func) in ("suppress", "contextlib.suppress") and not st.items[0].context_expr.keywords:
            # with suppress(E1, ..): the block; an exception of one of these kinds ends the block quietly
            names = [norm(t).split(".")[-1] for t in st.items[0].context_expr.args]
            try:
                return self.block(st.body, env, mod)
            except _Raise as x:
                if "Exception" in names or "BaseException" in names or (x.exc is not None and x.exc in names):
                    return None
                if x.exc is None:
                    raise AnalysisError("exception of unknown type (%s) meets suppress(..) at line %d" % (x.what, st.lineno))
                raise
        if isinstance(st, ast.Delete):
            for t in st.targets:
                if isinstance(t, ast.Attribute):
                    o = self.ev(t.value, env, mod)
                    if isinstance(o, Obj):
                        if t.attr not in o.fields:
                            raise _Raise(st, "del of missing attribute %s" % t.attr, "AttributeError")
                        del o.fields[t.attr]
                        self.trace.append(("del", t, (o, t.attr)))
                        continue
                if isinstance(t, ast.Subscript):
                    o = self.ev(t.value, env, mod)
                    k = self.ev(t.slice, env, mod)
                    if isinstance(o, DictV):
                        kk = self.key_of(k)
                        if kk not in o.d:
                            raise _Raise(st, "KeyError %r" % (kk,), "KeyError")
                        del o.d[kk]
                        continue
                    if isinstance(o, ListV) and isinstance(k, int):
                        del o.items[k]
                        continue
                if isinstance(t, ast.Name):
                    env.pop(t.id, None)
                    continue
                raise AnalysisError("del %s at line %d is not modelled" % (norm(t), st.lineno))
            return None
        if isinstance(st, (ast.Import, ast.ImportFrom)):
            return None
        raise AnalysisError("statement %s at line %d is not modelled" % (type(st).__name__, st.lineno))

    def iterate(self, v, node):
        if isinstance(v, IterV):
            out = list(v.items)
            del v.items[:]  # an iterator is used up by whoever walks it
            return out
        if isinstance(v, ListV):
            return list(v.items)
        if isinstance(v, ClassRef) and v.cls.is_enum:
            return [EnumMember(v.cls, k, self.ev(x, {"__mod__": v.cls.mod}, v.cls.mod)) for k, x in v.cls.enum_members().items()]
        if isinstance(v, DictV):
            return [self.unkey(k) for k in v.d]
        if isinstance(v, ElemV):
            return list(v.children.items)
        if isinstance(v, Obj) and v.cls is not None:
            owner, it = self.repo.find_method(v.cls, "__iter__")
            if it is not None:
                r = self.call_fn(FuncV(it, self_val=v, cls=owner, mod=owner.mod), [], {}, node)
                return self.iterate(r, node)
        if isinstance(v, Frag):
            return [v]
        raise AnalysisError("iteration over %r at line %d is not modelled" % (v, node.lineno))

    # ---- expressions
    def binop(self, op, a, b, node):
        if isinstance(a, Frag):
            return a
        if isinstance(b, Frag):
            return b
        if (self.outside_value(a) and (is_numeric(b) or self.outside_value(b))) or (self.outside_value(b) and is_numeric(a)):
            # arithmetic on a value of an uninterpreted numeric library (an array expression): a term over it
            sym = {ast.Add: "+", ast.Sub: "-", ast.Mult: "*", ast.Div: "/", ast.FloorDiv: "//", ast.Mod: "%", ast.Pow: "**", ast.MatMult: "@"}.get(type(op))
            if sym is not None:
                return Term(sym, [a, b])
        if isinstance(a, (int, float)) and isinstance(b, (int, float)) and not isinstance(a, bool) and not isinstance(b, bool) and (isinstance(a, float) or isinstance(b, float)) and type(op) in (ast.Add, ast.Sub, ast.Mult, ast.Div, ast.FloorDiv, ast.Mod, ast.Pow):
            try:
                return {ast.Add: lambda: a + b, ast.Sub: lambda: a - b, ast.Mult: lambda: a * b, ast.Div: lambda: a / b, ast.FloorDiv: lambda: a // b, ast.Mod: lambda: a % b, ast.Pow: lambda: a ** b}[type(op)]()
            except ZeroDivisionError:
                raise _Raise(node, "division by zero", "ZeroDivisionError")
        if is_numeric(a) and is_numeric(b) and (isinstance(a, (Sym, Term)) or isinstance(b, (Sym, Term))):
            sym = {ast.Add: "+", ast.Sub: "-", ast.Mult: "*", ast.Div: "/", ast.FloorDiv: "//", ast.Mod: "%", ast.Pow: "**"}.get(type(op))
            if sym is None:
                raise AnalysisError("numeric operation %s at line %d" % (type(op).__name__, node.lineno))
            return Term(sym, [a, b])
        nd = lambda x: isinstance(x, ListV) and "ndarray" in getattr(x, "ext_types", ())
        if isinstance(op, (ast.Add, ast.Sub, ast.Mult, ast.FloorDiv, ast.Mod, ast.Div)) and ((nd(a) and (nd(b) or is_numeric(b))) or (nd(b) and is_numeric(a))) and not any(isinstance(i, bool) for x in (a, b) if nd(x) for i in x.items):
            # element-wise arithmetic of a modelled array with a number or an array of the same length
            n = len(a.items) if nd(a) else len(b.items)
            if nd(a) and nd(b) and len(a.items) != len(b.items):
                raise _Raise(node, "operands could not be broadcast together", "ValueError")
            out = ListV([self.binop(op, a.items[i] if nd(a) else a, b.items[i] if nd(b) else b, node) for i in range(n)])
            out.ext_types = {"ndarray"}
            return out
        if isinstance(op, (ast.BitAnd, ast.BitOr)) and all(isinstance(x, ListV) and "ndarray" in getattr(x, "ext_types", ()) and all(isinstance(i, bool) for i in x.items) for x in (a, b)) and len(a.items) == len(b.items):
            # element-wise and / or of two boolean arrays
            out = ListV([(x and y) if isinstance(op, ast.BitAnd) else (x or y) for x, y in zip(a.items, b.items)])
            out.ext_types = {"ndarray"}
            return out
        if isinstance(op, (ast.BitAnd, ast.BitOr)) and isinstance(a, bool) and isinstance(b, bool):
            return (a and b) if isinstance(op, ast.BitAnd) else (a or b)
        if isinstance(a, SetV) and isinstance(b, SetV) and isinstance(op, (ast.Sub, ast.BitOr, ast.BitAnd)):
            if isinstance(op, ast.Sub):
                return SetV([x for x in a.items if not any(same(x, y) for y in b.items)])
            if isinstance(op, ast.BitAnd):
                return SetV([x for x in a.items if any(same(x, y) for y in b.items)])
            return SetV(list(a.items) + [y for y in b.items if not any(same(x, y) for x in a.items)])
        if isinstance(op, ast.Add):
            if isinstance(a, Str) and isinstance(b, Str):
                return a + b
            if isinstance(a, ListV) and isinstance(b, ListV) and type(a) is type(b):
                return type(a)(a.items + b.items)
            if isinstance(a, int) and isinstance(b, int):
                return a + b
            if isinstance(a, Str) != isinstance(b, Str):
                raise _Raise(node, "concatenating text with %r" % (b if isinstance(a, Str) else a))
        if isinstance(op, ast.Mult) and ((isinstance(a, ListV) and isinstance(b, int)) or (isinstance(b, ListV) and isinstance(a, int))) and not isinstance(a, bool) and not isinstance(b, bool):
            lst, n = (a, b) if isinstance(a, ListV) else (b, a)
            if isinstance(lst, SetV):
                raise _Raise(node, "unsupported operand: set * int", "TypeError")
            return type(lst)(lst.items * n)  # the same element objects repeated, as in Python
        if isinstance(op, ast.Sub) and isinstance(a, int) and isinstance(b, int):
            return a - b
        if isinstance(op, ast.Mult) and isinstance(a, int) and isinstance(b, int):
            return a * b
        if isinstance(op, ast.Mod) and isinstance(a, Str):
            return self.percent(a, b, node)
        raise AnalysisError("operation %s on %r, %r at line %d" % (type(op).__name__, a, b, node.lineno))

    def percent(self, fmt, arg, node):
        if not fmt.is_lit():
            raise AnalysisError("format string is not constant at line %d" % node.lineno)
        args = list(arg.items) if isinstance(arg, TupV) else [arg]
        out, text, i, k = [], fmt.text(), 0, 0
        mapping = arg if isinstance(arg, DictV) else None
        while i < len(text):
            if text[i] == "%" and i + 1 < len(text):
                c = text[i + 1]
                if c == "(" and mapping is not None:
                    j = text.find(")", i)
                    if j < 0 or j + 1 >= len(text) or text[j + 1] not in "sd":
                        raise AnalysisError("format directive %s" % text[i : i + 12])
                    key = text[i + 2 : j]
                    if key not in mapping.d:
                        raise _Raise(node, "KeyError %r in format mapping" % key, "KeyError")
                    v = self.to_str(mapping.d[key])
                    if isinstance(v, Frag):
                        return v
                    out += list(v.pieces)
                    i = j + 2
                    continue
                if c == "%":
                    out.append(("lit", "%"))
                elif c in "sd":
                    if k >= len(args):
                        raise _Raise(node, "not enough arguments for format string")
                    v = self.to_str(args[k])
                    if isinstance(v, Frag):
                        return v
                    out += list(v.pieces)
                    k += 1
                else:
                    raise AnalysisError("format directive %%%s" % c)
                i += 2
                continue
            out.append(("lit", text[i]))
            i += 1
        if mapping is None and k != len(args):
            raise _Raise(node, "not all arguments converted during string formatting")
        return Str(out)

    def comp(self, gens, env, mod, emit):
        def rec(i, e):
            if i == len(gens):
                emit(e)
                return
            g = gens[i]
            for x in self.iterate(self.ev(g.iter, e, mod), g.iter):
                self.steps = getattr(self, "steps", 0) + 1
                if self.steps > self.step_budget:
                    raise NonTermination("more than %d steps evaluated (comprehension at line %d)" % (self.step_budget, getattr(g.iter, "lineno", 0)))
                e2 = {"__outer__": e, "__mod__": mod}
                self.assign(g.target, x, e2, mod)
                if all(self.truth(self.ev(c, e2, mod), c) for c in g.ifs):
                    rec(i + 1, e2)

        rec(0, env)

    def ev(self, e, env, mod=None):
        mod = mod or env.get("__mod__")
        if isinstance(e, ast.Constant):
            v = e.value
            if isinstance(v, str):
                return Str.lit(v)
            if v is None:
                return NONE
            if isinstance(v, (bool, int, float)):
                return v
            raise AnalysisError("constant %r" % (v,))
        if isinstance(e, ast.Name):
            return self.lookup(e.id, env, mod, e)
        if isinstance(e, ast.Attribute):
            r = self.getattr(self.ev(e.value, env, mod), e.attr, e, mod)
            if isinstance(r, tuple) and r and r[0] == "method":
                if self.outside_value(r[1]):
                    # attribute of a value of an uninterpreted pure module: an uninterpreted function of that value
                    return Ctor(".%s" % e.attr, {"of": r[1]}, kind="call")
                if isinstance(r[1], ListV) and "ndarray" in getattr(r[1], "ext_types", ()) and e.attr == "size":
                    return len(r[1].items)
                if isinstance(r[1], (DictV, ListV, Str)):
                    # a bound method of a container handed on as a value (key=d.get, map(s.strip, ..))
                    return PyFunc(lambda a, k, recv=r[1], name=e.attr, at=e: self.method(recv, name, list(a), dict(k), at), "%s.%s" % (type(r[1]).__name__, e.attr))
                raise AnalysisError("attribute .%s of %r at line %d is not modelled" % (e.attr, r[1], e.lineno))
            return r
        if isinstance(e, ast.JoinedStr):
            out = Str()
            for v in e.values:
                if isinstance(v, ast.FormattedValue):
                    if v.format_spec is not None:
                        raise AnalysisError("format spec in f-string at line %d" % e.lineno)
                    s = self.to_str(self.ev(v.value, env, mod))
                    if isinstance(s, Frag):
                        return s
                    out = out + s
                else:
                    out = out + self.ev(v, env, mod)
            return out
        if isinstance(e, (ast.List, ast.Tuple)):
            items = []
            for x in e.elts:
                if isinstance(x, ast.Starred):
                    items += self.iterate(self.ev(x.value, env, mod), x)
                else:
                    items.append(self.ev(x, env, mod))
            return (ListV if isinstance(e, ast.List) else TupV)(items)
        if isinstance(e, ast.Set):
            out = SetV([])
            for x in e.elts:
                v = self.ev(x, env, mod)
                if not any(same(v, y) for y in out.items):
                    out.items.append(v)
            return out
        if isinstance(e, ast.SetComp):
            out = SetV([])

            def add(e2):
                v = self.ev(e.elt, e2, mod)
                if not any(same(v, y) for y in out.items):
                    out.items.append(v)

            self.comp(e.generators, env, mod, add)
            return out
        if isinstance(e, ast.Dict):
            return DictV({self.key_of(self.ev(k, env, mod)): self.ev(v, env, mod) for k, v in zip(e.keys, e.values)})
        if isinstance(e, ast.IfExp):
            return self.ev(e.body if self.truth(self.ev(e.test, env, mod), e) else e.orelse, env, mod)
        if isinstance(e, ast.BoolOp):
            v = None
            for x in e.values:
                v = self.ev(x, env, mod)
                t = self.truth(v, x)
                if isinstance(e.op, ast.And) and not t:
                    return v
                if isinstance(e.op, ast.Or) and t:
                    return v
            return v
        if isinstance(e, ast.UnaryOp):
            v = self.ev(e.operand, env, mod)
            if isinstance(e.op, ast.Not):
                return not self.truth(v, e)
            if isinstance(e.op, ast.USub) and isinstance(v, (int, float)):
                return -v
            if isinstance(e.op, ast.USub) and (is_numeric(v) or self.outside_value(v)):
                return Term("neg", [v])
            if isinstance(e.op, ast.UAdd) and is_numeric(v):
                return v
            raise AnalysisError("unary operation at line %d" % e.lineno)
        if isinstance(e, ast.Compare):
            left = self.ev(e.left, env, mod)
            for op, c in zip(e.ops, e.comparators):
                right = self.ev(c, env, mod)
                r = self.compare(op, left, right, e)
                if isinstance(r, ListV) and len(e.ops) == 1:
                    return r  # element-wise comparison of arrays, answered by the oracle of the case
                if not r:
                    return False
                left = right
            return True
        if isinstance(e, ast.BinOp):
            return self.binop(e.op, self.ev(e.left, env, mod), self.ev(e.right, env, mod), e)
        if isinstance(e, (ast.ListComp, ast.GeneratorExp)):
            out = []
            self.comp(e.generators, env, mod, lambda e2: out.append(self.ev(e.elt, e2, mod)))
            return ListV(out) if isinstance(e, ast.ListComp) else IterV(out)
        if isinstance(e, ast.DictComp):
            out = {}

            def put(e2):
                out[self.key_of(self.ev(e.key, e2, mod))] = self.ev(e.value, e2, mod)

            self.comp(e.generators, env, mod, put)
            return DictV(out)
        if isinstance(e, ast.Subscript):
            return self.subscript(self.ev(e.value, env, mod), e.slice, env, mod, e)
        if isinstance(e, ast.Call):
            return self.call(e, env, mod)
        if isinstance(e, (ast.Yield, ast.YieldFrom)):
            sink, e2 = None, env
            while e2 is not None and sink is None:
                sink = e2.get("__yield__")
                e2 = e2.get("__outer__")
            if sink is None:
                raise AnalysisError("yield outside a generator at line %d" % e.lineno)
            if isinstance(e, ast.Yield):
                sink.append(self.ev(e.value, env, mod) if e.value is not None else NONE)
            else:
                sink.extend(self.iterate(self.ev(e.value, env, mod), e))
            return NONE
        if isinstance(e, ast.Lambda):
            fn = ast.FunctionDef(name="<lambda>", args=e.args, body=[ast.Return(value=e.body, lineno=e.lineno, col_offset=0)], decorator_list=[], lineno=e.lineno, col_offset=0)
            return FuncV(fn, env=env, mod=mod)
        raise AnalysisError("expression %s at line %d is not modelled" % (type(e).__name__, e.lineno))

    def call(self, e, env, mod):
        args = []
        for a in e.args:
            if isinstance(a, ast.Starred):
                args += self.iterate(self.ev(a.value, env, mod), a)
            else:
                args.append(self.ev(a, env, mod))
        kwargs = {}
        for k in e.keywords:
            if k.arg is None:
                d = self.ev(k.value, env, mod)
                if not isinstance(d, DictV):
                    raise AnalysisError("**%r at line %d" % (d, e.lineno))
                kwargs.update(d.d)
            else:
                kwargs[k.arg] = self.ev(k.value, env, mod)
        f = e.func
        if isinstance(f, ast.Attribute) and isinstance(f.value, ast.Call) and isinstance(f.value.func, ast.Name) and f.value.func.id == "super" and not f.value.args:
            cur, e2 = None, env
            while e2 is not None and cur is None:
                cur = e2.get("__cls__")
                slf = e2.get("self", e2.get("cls"))
                e2 = e2.get("__outer__")
            if cur is None:
                raise AnalysisError("super() outside a method at line %d" % e.lineno)
            for c in self.repo.mro(cur)[1:]:
                if f.attr in c.methods:
                    return self.apply(self.bind(c.methods[f.attr], c, slf if isinstance(slf, Obj) else None, via_class=slf if isinstance(slf, ClassRef) else None), args, kwargs, e, mod)
            if f.attr == "__setattr__" and isinstance(slf, Obj) and len(args) == 2 and isinstance(args[0], Str) and args[0].is_lit():
                slf.fields[args[0].text()] = args[1]  # object.__setattr__: the plain store
                return NONE
            raise AnalysisError("super().%s not found at line %d" % (f.attr, e.lineno))
        if isinstance(f, ast.Attribute) and isinstance(f.value, ast.Name) and f.value.id == "dict" and f.attr == "fromkeys" and len(args) in (1, 2) and "dict" not in env:
            # dict.fromkeys(it[, v]): the keys in first-seen order, each once
            d = DictV({})
            for x in self.iterate(args[0], e):
                d.d.setdefault(self.key_of(x), args[1] if len(args) == 2 else NONE)
            return d
        if isinstance(f, ast.Attribute) and isinstance(f.value, ast.Name) and f.value.id == "object" and f.attr == "__setattr__" and len(args) == 3 and isinstance(args[0], Obj) and isinstance(args[1], Str) and args[1].is_lit() and "object" not in env:
            args[0].fields[args[1].text()] = args[2]
            return NONE
        if isinstance(f, ast.Attribute):
            recv = self.ev(f.value, env, mod)
            target = self.getattr(recv, f.attr, f, mod)
            if isinstance(target, tuple) and target and target[0] == "method":
                return self.method(recv, f.attr, args, kwargs, e)
        else:
            target = self.ev(f, env, mod)
        return self.apply(target, args, kwargs, e, mod)

    @staticmethod
    def _is_matrix(v):
        return isinstance(v, ListV) and "ndarray" in getattr(v, "ext_types", ()) and bool(v.items) and all(isinstance(r, ListV) and len(r.items) == len(v.items[0].items) for r in v.items)

    def helper_class(self, c):
        """a class of the repository that only carries behaviour (it is callable, subscriptable, or a private class
        that is no record): its instances are evaluated as objects, not recorded as constructor terms"""
        if c.is_enum or c.is_dataclass or any(b.split(".")[-1] in ("NamedTuple", "Enum", "Exception", "ABC", "IDrawable") for b in c.bases):
            return False
        if "__call__" in c.methods or "__getitem__" in c.methods:
            return True
        return c.name.startswith("_") and not c.name.startswith("__") and not c.bases

    def apply(self, target, args, kwargs, e, mod):
        try:
            if isinstance(target, FuncV):
                return self.call_fn(target, args, kwargs, e)
            if isinstance(target, Obj) and target.cls is not None and not isinstance(target, Lenient):
                owner, fn = self.repo.find_method(target.cls, "__call__")
                if fn is not None:
                    return self.call_fn(FuncV(fn, self_val=target, cls=owner, mod=owner.mod), args, kwargs, e)
            if isinstance(target, ClassRef):
                c = target.cls
                if c.is_enum:
                    if len(args) != 1:
                        raise AnalysisError("enum call at line %d" % e.lineno)
                    if isinstance(args[0], Frag):
                        return args[0]
                    for m in self.iterate(target, e):
                        try:
                            if self.equal(m.value, args[0]):
                                return m
                        except Undecided:
                            raise
                    raise _Raise(e, "%r is not a valid %s" % (args[0], c.name))
                if any(b.split(".")[-1] == "NamedTuple" for b in c.bases):
                    names = list(c.field_order)
                    vals = {}
                    if len(args) > len(names):
                        raise _Raise(e, "too many arguments for %s" % c.name, "TypeError")
                    for n_, a_ in zip(names, args):
                        vals[n_] = a_
                    for k_, v_ in kwargs.items():
                        if k_ not in names or k_ in vals:
                            raise _Raise(e, "unexpected argument %s for %s" % (k_, c.name), "TypeError")
                        vals[k_] = v_
                    for n_ in names:
                        if n_ not in vals:
                            d_ = c.class_assigns.get(n_)
                            if d_ is None:
                                raise _Raise(e, "missing argument %s for %s" % (n_, c.name), "TypeError")
                            vals[n_] = self.ev(d_, {"__mod__": c.mod}, c.mod)
                    return NamedTupV(c, names, [vals[n_] for n_ in names])
                if c.name in self.ctor_models:
                    return self.ctor_models[c.name](args, kwargs)
                got = self.repo.find_method(c, "__init__")
                if c.name in self.instantiate or self.helper_class(c):
                    o = Obj(c, {}, closed=True)
                    if got[1] is not None:
                        self.call_fn(FuncV(got[1], self_val=o, cls=got[0], mod=got[0].mod), args, kwargs, e)
                    return o
                if got[1] is None:
                    return Ctor(c.name, dict(kwargs, **{"arg%d" % i: a for i, a in enumerate(args)}))
                owner, init = got
                return Ctor(c.name, self.bind_args(init, args, kwargs, drop_first=True, mod=owner.mod))
            if isinstance(target, NTClass):
                if len(args) > len(target.names) or any(k not in target.names for k in kwargs):
                    raise _Raise(e, "bad arguments for %s" % target.name, "TypeError")
                vals = dict(zip(target.names, args))
                vals.update(kwargs)
                if set(vals) != set(target.names):
                    raise _Raise(e, "missing arguments for %s" % target.name, "TypeError")
                return NamedTupV(target, target.names, [vals[n_] for n_ in target.names])
            if isinstance(target, PartialV):
                return self.apply(target.target, target.args + list(args), dict(target.kwargs, **kwargs), e, mod)
            if isinstance(target, PyFunc):
                return target.fn(args, kwargs)
            if isinstance(target, Lenient):
                target.root.log.append((target.label, list(args), dict(kwargs)))
                return Lenient(target.label + "()", target.root)
            if isinstance(target, Builtin):
                return self.builtin(target.name, args, kwargs, e)
            if isinstance(target, ModRef):
                return self.modcall(target.name, args, kwargs, e)
        except _Raise as r:
            if r.node is None:
                r.node = e
            raise
        raise AnalysisError("call of %r at line %d is not modelled" % (target, e.lineno))

    def builtin(self, name, args, kwargs, e):
        if name == "str":
            return self.to_str(args[0]) if args else Str()
        if name == "format" and len(args) == 2:
            # a value printed under a format specification: a text of its own (not the plain text of the value)
            if isinstance(args[1], Str) and args[1].is_lit() and args[1].text() == "":
                return self.to_str(args[0])
            return Ctor("format", {"value": args[0], "spec": args[1]}, kind="call")
        if name == "ord" and len(args) == 1 and isinstance(args[0], Str) and args[0].is_lit() and len(args[0].text()) == 1:
            return ord(args[0].text())
        if name == "chr" and len(args) == 1 and isinstance(args[0], int) and not isinstance(args[0], bool):
            return Str.lit(chr(args[0]))
        if name == "int":
            return self.to_int(args[0])
        if name == "bool":
            return self.truth(args[0], e)
        if name == "len":
            v = args[0]
            if isinstance(v, Str):
                n = str_len(v)
                if n is None:
                    raise Undecided("len(%s) at line %d" % (v.text(), e.lineno))
                return n
            if isinstance(v, ListV):
                return len(v.items)
            if isinstance(v, DictV):
                return len(v.d)
            if isinstance(v, ElemV):
                return len(v.children.items)
            if isinstance(v, NoneT):
                raise _Raise(e, "len(None)", "TypeError")
            if isinstance(v, ClassRef) and v.cls.is_enum:
                return len(v.cls.enum_members())
            raise Undecided("len(%r)" % (v,))
        if name in ("list", "tuple"):
            return (ListV if name == "list" else TupV)(self.iterate(args[0], e) if args else [])
        if name == "enumerate":
            start = args[1] if len(args) > 1 else kwargs.get("start", 0)
            return IterV([TupV([i + start, x]) for i, x in enumerate(self.iterate(args[0], e))])
        if name == "zip":
            cols = [self.iterate(a, e) for a in args]
            if cols and all(isinstance(a, RepeatV) for a in args):
                raise Undecided("zip of endless iterables only")
            return IterV([TupV(list(t)) for t in zip(*cols)])
        if name == "divmod" and len(args) == 2:
            a, b = args
            if all(isinstance(x, int) and not isinstance(x, bool) for x in args):
                return TupV(list(divmod(a, b)))
            if all(is_numeric(x) for x in args):
                return TupV([Term("//", [a, b]), Term("%", [a, b])])
            raise AnalysisError("divmod of %r, %r" % (a, b))
        if name == "range":
            if all(isinstance(a, int) for a in args):
                return ListV(list(range(*args)))
            raise Undecided("range(%r)" % (args,))
        if name in ("all", "any"):
            ts = [self.truth(x, e) for x in self.iterate(args[0], e)]
            return all(ts) if name == "all" else any(ts)
        if name == "isinstance":
            return self.isinstance(args[0], args[1], e)
        if name == "float" and len(args) == 1 and isinstance(args[0], Str):
            v = args[0]
            if v.is_lit():
                try:
                    return float(v.text())
                except ValueError:
                    raise _Raise(e, "float(%r)" % v.text(), "ValueError")
            if len(v.pieces) == 1 and v.pieces[0][0] == "sym" and v.pieces[0][1].kind == "num":
                return v.pieces[0][1]
            if len(v.pieces) == 1 and v.pieces[0][0] == "sym" and v.pieces[0][1].kind == "int":
                return Term("float", [v.pieces[0][1]])  # the number, but no longer an integer
            return Frag("float(%s)" % v.text())
        if name in ("round", "abs", "min", "max", "float") and args and any(isinstance(a, (Sym, Term)) or self.outside_value(a) for a in args) and all(is_numeric(a) or self.outside_value(a) for a in args):
            if name == "float" and len(args) == 1:
                return args[0]
            return Term(name, args)
        if name in ("min", "max") and (kwargs.get("key") is not None or (len(args) >= 1 and not all(isinstance(x, (int, float)) for x in (args[0].items if len(args) == 1 and isinstance(args[0], ListV) else args)))) and (len(args) > 1 or isinstance(args[0], ListV)) and not any(isinstance(a, (Sym, Term)) for a in args):
            # the extreme element under the order the comparisons (an oracle of the case, or constants) decide;
            # the first one on ties, as in Python
            items = list(args[0].items) if len(args) == 1 else list(args)
            if not items:
                if "default" in kwargs:
                    return kwargs["default"]
                raise _Raise(e, "%s() of an empty collection" % name, "ValueError")
            keyf = kwargs.get("key")
            keys = [x if keyf is None or keyf is NONE else self.apply(keyf, [x], {}, e, None) for x in items]
            best = 0
            for i in range(1, len(items)):
                better = self.compare(ast.Lt() if name == "min" else ast.Gt(), keys[i], keys[best], e)
                if self.truth(better, e):
                    best = i
            return items[best]
        if name in ("min", "max") and len(args) == 1 and isinstance(args[0], ListV):
            items = args[0].items
            if items and all(isinstance(x, (int, float)) and not isinstance(x, bool) for x in items):
                return (max if name == "max" else min)(items)
            if not items:
                if "default" in kwargs:
                    return kwargs["default"]
                raise _Raise(e, "%s() of an empty collection" % name, "ValueError")
            raise Undecided("%s(%r)" % (name, items))
        if name in ("round", "abs", "min", "max") and args and all(isinstance(a, (int, float)) for a in args):
            return {"round": round, "abs": abs, "min": min, "max": max}[name](*args)
        if name == "slice" and 1 <= len(args) <= 3:
            a3 = [NONE, args[0], NONE] if len(args) == 1 else list(args) + [NONE] * (3 - len(args))
            return Obj(None, {"start": a3[0], "stop": a3[1], "step": a3[2]}, closed=True, label="slice object")
        if name == "object" and not args and not kwargs:
            return Obj(None, {}, closed=True, label="object()")  # a fresh sentinel: equal to itself only
        if name == "type" and len(args) == 1:
            if isinstance(args[0], Obj) and args[0].cls is not None:
                return ClassRef(args[0].cls)
            if isinstance(args[0], NoneT):
                return Builtin("NoneType")
            a0 = args[0]
            if isinstance(a0, bool):
                return Builtin("bool")
            if isinstance(a0, (int, float)):
                return Builtin(type(a0).__name__)
            if isinstance(a0, (Sym, Term)) and is_numeric(a0):
                # a number: its class is int or float (no class of the repository)
                return Builtin({"int": "int", "float": "float"}.get(getattr(a0, "kind", None), "number"))
            if isinstance(a0, Str):
                return Builtin("str")
            if isinstance(a0, DictV):
                return Builtin("dict")
            if isinstance(a0, TupV):
                return Builtin("tuple")
            if isinstance(a0, SetV):
                return Builtin("set")
            if type(a0) is ListV:
                return Builtin("list")
            if isinstance(a0, EnumMember):
                return ClassRef(a0.cls)
            raise AnalysisError("type(%r) at line %d" % (args[0], e.lineno))
        if name == "next" and args:
            if isinstance(args[0], IterV):
                if args[0].items:
                    return args[0].items.pop(0)  # the iterator moves on
                if len(args) > 1:
                    return args[1]
                raise _Raise(e, "StopIteration", "StopIteration")
            if isinstance(args[0], ListV) and not self.outside_value(args[0]):
                raise _Raise(e, "%s object is not an iterator" % ("tuple" if isinstance(args[0], TupV) else "list"), "TypeError")
            items = self.iterate(args[0], e)
            if items:
                return items[0]
            if len(args) > 1:
                return args[1]
            raise _Raise(e, "StopIteration", "StopIteration")
        if name == "iter" and len(args) == 1:
            return args[0] if isinstance(args[0], IterV) else IterV(self.iterate(args[0], e))
        if name == "reversed" and len(args) == 1:
            return IterV(list(reversed(self.iterate(args[0], e))))
        if name == "print":
            return NONE
        if name == "input":
            if self.input_reply is None:
                raise AnalysisError("input() at line %d: no reply modelled" % e.lineno)
            self.trace.append(("input", e, args[0] if args else NONE))
            return self.input_reply
        if name == "id" and len(args) == 1:
            return IdV(args[0])
        if name == "__new__" and len(args) == 1 and isinstance(args[0], ClassRef):
            return Obj(args[0].cls, {}, closed=True)
        if name == "setattr" and len(args) == 3 and isinstance(args[0], Obj) and isinstance(args[1], Str) and args[1].is_lit():
            o, a = args[0], args[1].text()
            if o.cls is not None and not isinstance(o, Lenient):
                sowner, sfn = self.repo.find_method(o.cls, "__setattr__")
                if sfn is not None:
                    self.call_fn(FuncV(sfn, self_val=o, cls=sowner, mod=sowner.mod), [args[1], args[2]], {}, e)
                    return NONE
            if o.cls is not None:
                owner, pr = self.repo.find_prop(o.cls, a)
                if pr and pr.get("set") is not None:
                    self.call_fn(FuncV(pr["set"], self_val=o, cls=owner, mod=owner.mod), [args[2]], {}, e)
                    return NONE
            o.fields[a] = args[2]
            self.trace.append(("store", e, (o, a, args[2])))
            return NONE
        if name == "hasattr" and len(args) == 2 and isinstance(args[1], Str) and args[1].is_lit():
            o, a = args[0], args[1].text()
            if isinstance(o, Obj):
                if a in o.fields:
                    return True
                if o.cls is not None and (self.repo.find_prop(o.cls, a)[1] or self.repo.find_method(o.cls, a)[1] is not None or any(a in c.class_assigns for c in self.repo.mro(o.cls))):
                    return True
                if o.closed:
                    return False
            raise Undecided("hasattr(%r, %r) at line %d" % (o, a, e.lineno))
        if name == "getattr" and len(args) in (2, 3) and isinstance(args[1], Str) and args[1].is_lit():
            try:
                r = self.getattr(args[0], args[1].text(), e, None)
            except _Raise as x:
                if len(args) == 3 and x.exc == "AttributeError":
                    return args[2]
                raise
            if isinstance(r, tuple) and r and r[0] == "method":
                raise AnalysisError("getattr of a method of %r at line %d" % (args[0], e.lineno))
            return r
        if name == "set":
            out = SetV([])
            for x in self.iterate(args[0], e) if args else []:
                if not any(same(x, y) for y in out.items):
                    out.items.append(x)
            return out
        if name in ("map", "filter"):
            f = args[0]
            items = [list(t) for t in zip(*[self.iterate(a, e) for a in args[1:]])]
            if name == "map":
                return IterV([self.apply(f, it, {}, e, None) for it in items])
            return IterV([it[0] for it in items if (self.truth(it[0], e) if isinstance(f, NoneT) else self.truth(self.apply(f, it, {}, e, None), e))])
        if name == "sorted" and (not kwargs or set(kwargs) <= {"key", "reverse"}) and kwargs:
            items = self.iterate(args[0], e)
            keyf = kwargs.get("key")
            keys = [self.apply(keyf, [x], {}, e, None) if keyf is not None and not isinstance(keyf, NoneT) else x for x in items]
            rev = kwargs.get("reverse", False)
            if not isinstance(rev, bool):
                raise Undecided("sorted(reverse=%r)" % (rev,))
            if all(isinstance(k, (int, float)) and not isinstance(k, bool) for k in keys):
                order = sorted(range(len(items)), key=lambda i: keys[i], reverse=rev)
            elif all(isinstance(k, Str) and k.is_lit() for k in keys):
                order = sorted(range(len(items)), key=lambda i: keys[i].text(), reverse=rev)
            else:
                raise Undecided("sorted by keys %r" % (keys,))
            return ListV([items[i] for i in order])
        if name == "sorted" and not kwargs:
            items = self.iterate(args[0], e)
            if all(isinstance(x, int) and not isinstance(x, bool) for x in items):
                return ListV(sorted(items))
            if all(isinstance(x, Str) and x.is_lit() for x in items):
                return ListV([Str.lit(t) for t in sorted(x.text() for x in items)])
            raise Undecided("sorted(%r)" % (items,))
        if name == "dict":
            out = DictV()
            for a in args:
                if isinstance(a, DictV):
                    out.d.update(a.d)
                else:
                    for pair in self.iterate(a, e):
                        if not (isinstance(pair, ListV) and len(pair.items) == 2):
                            raise AnalysisError("dict(%r) at line %d" % (pair, e.lineno))
                        out.d[self.key_of(pair.items[0])] = pair.items[1]
            out.d.update(kwargs)
            return out
        raise AnalysisError("builtin %s at line %d is not modelled" % (name, e.lineno))

    def isinstance(self, v, t, e):
        ts = t.items if isinstance(t, ListV) else [t]
        und = False
        for x in ts:
            if isinstance(x, Builtin):
                n = x.name
                if isinstance(v, Frag):
                    raise Undecided("isinstance of a fragment")
                if n == "list" and isinstance(v, ListV) and not isinstance(v, (TupV, SetV)):
                    return True
                if n == "tuple" and isinstance(v, TupV):
                    return True
                if n == "str" and isinstance(v, Str):
                    return True
                if n == "int" and (isinstance(v, int) or (isinstance(v, Sym) and v.kind == "int")):
                    return True
                if n == "bool" and isinstance(v, bool):
                    return True
                if n == "float" and (isinstance(v, float) or (isinstance(v, Sym) and v.kind == "float")):
                    return True
                if n == "dict" and isinstance(v, DictV):
                    return True
                if n == "NoneType" and isinstance(v, NoneT):
                    return True
                if n == "set" and isinstance(v, SetV):
                    return True
            elif isinstance(x, ClassRef):
                if isinstance(v, EnumMember) and v.cls is x.cls:
                    return True
                if isinstance(v, Obj) and v.cls is not None and x.cls in self.repo.mro(v.cls):
                    return True
            elif isinstance(x, ModRef):
                # a class of the repository named through its module path (commonroad.prediction.prediction.X)
                parts = x.name.split(".")
                rel = "/".join(parts[:-1]) + ".py"
                rm = self.repo.modules.get(rel)
                if rm is not None and parts[-1] in rm.classes:
                    rc = rm.classes[parts[-1]]
                    if isinstance(v, Obj) and v.cls is not None and rc in self.repo.mro(v.cls):
                        return True
                    continue
                # an outside class: decided by the declared outside types of the object; typing aliases: List / Tuple / ...
                n = x.name.split(".")[-1]
                if hasattr(v, "ext_types"):
                    if n in v.ext_types:
                        return True
                    continue
                if n in ("List", "Sequence", "Iterable", "list") and isinstance(v, ListV):
                    return True
            else:
                und = True
        if und:
            raise Undecided("isinstance against %r at line %d" % (t, e.lineno))
        return False

    def modcall(self, name, args, kwargs, e):
        if name.startswith("warnings.") or name.startswith("logging.") or name.startswith("logger."):
            return NONE
        if name in self.model_calls:
            return self.model_calls[name](args, kwargs)
        if any(part.endswith("_pb2") for part in name.split(".")[:-1]) and not args:
            return Lenient(name.split(".")[-1] + "()")  # a protobuf message
        last = name.split(".")[-1]
        if last == "Element" and args:
            el = ElemV(args[0], args[1].d if len(args) > 1 and isinstance(args[1], DictV) else None)
            if isinstance(kwargs.get("attrib"), DictV):
                el.attrib.d.update(kwargs["attrib"].d)
            el.attrib.d.update({k: v for k, v in kwargs.items() if k not in ("attrib", "nsmap")})
            return el
        if last == "SubElement" and len(args) >= 2 and isinstance(args[0], ElemV):
            el = ElemV(args[1], args[2].d if len(args) > 2 and isinstance(args[2], DictV) else None)
            el.attrib.d.update({k: v for k, v in kwargs.items() if k not in ("attrib", "nsmap")})
            args[0].children.items.append(el)
            el.parent = args[0]
            return el
        if name in ("datetime.strptime", "datetime.datetime.strptime") and len(args) == 2:
            x, fmt = args
            if isinstance(x, Ctor) and x.name == "strftime" and isinstance(fmt, Str) and fmt.is_lit() and isinstance(x.args.get("fmt"), Str):
                if x.args["fmt"].key() == fmt.key():
                    return x.args["of"]
                raise _Raise(e, "time data does not match format %r" % fmt.text(), "ValueError")
            raise AnalysisError("datetime.strptime(%r, %r) at line %d" % (x, fmt, e.lineno))
        if name in ("collections.namedtuple", "namedtuple") and len(args) >= 2 and isinstance(args[0], Str) and args[0].is_lit():
            fields = args[1]
            if isinstance(fields, Str) and fields.is_lit():
                names = fields.text().replace(",", " ").split()
            elif isinstance(fields, ListV) and all(isinstance(x, Str) and x.is_lit() for x in fields.items):
                names = [x.text() for x in fields.items]
            else:
                raise AnalysisError("namedtuple fields at line %d" % e.lineno)
            return NTClass(args[0].text(), names)
        if name in ("operator.methodcaller", "methodcaller") and args and isinstance(args[0], Str) and args[0].is_lit():
            mname, margs, mkw = args[0].text(), list(args[1:]), dict(kwargs)

            def mcall(a, k, mname=mname, margs=margs, mkw=mkw):
                recv = a[0]
                tgt = self.getattr(recv, mname, e, None)
                if isinstance(tgt, tuple) and tgt and tgt[0] == "method":
                    return self.method(recv, mname, margs, mkw, e)
                return self.apply(tgt, margs, mkw, e, None)

            return PyFunc(mcall, "methodcaller(%r)" % mname)
        if name in ("operator.eq", "operator.ne", "operator.is_", "operator.is_not", "operator.not_", "operator.contains"):
            op = name.split(".")[1]
            if op == "not_":
                return not self.truth(args[0], e)
            table = {"eq": ast.Eq(), "ne": ast.NotEq(), "is_": ast.Is(), "is_not": ast.IsNot()}
            if op == "contains":
                return self.compare(ast.In(), args[1], args[0], e)
            return self.compare(table[op], args[0], args[1], e)
        if name in ("functools.wraps", "wraps") and args:
            return PyFunc(lambda a, k: a[0], "functools.wraps(..)")  # the wrapper itself; only its metadata changes
        if name in ("inspect.signature", "signature") and len(args) == 1 and isinstance(args[0], FuncV):
            target = args[0]

            def bind(a, k, target=target):
                b = self.bind_args(target.fn, list(a), dict(k), receiver=target.self_val, mod=target.mod)
                order = [x.arg for x in target.fn.args.posonlyargs + target.fn.args.args]
                return Obj(None, {"args": TupV([b[p_] for p_ in order if p_ in b]), "kwargs": DictV({}), "arguments": DictV({p_: b[p_] for p_ in order if p_ in b})}, closed=True, label="bound arguments")

            return Obj(None, {"bind": PyFunc(bind, "Signature.bind"), "parameters": DictV({x.arg: NONE for x in target.fn.args.args})}, closed=True, label="signature of %s" % target.fn.name)
        if name.startswith("operator.") and name.split(".", 1)[1] in ("add", "sub", "mul", "truediv", "floordiv", "mod", "pow") and len(args) == 2 and not kwargs:
            return self.binop({"add": ast.Add, "sub": ast.Sub, "mul": ast.Mult, "truediv": ast.Div, "floordiv": ast.FloorDiv, "mod": ast.Mod, "pow": ast.Pow}[name.split(".", 1)[1]](), args[0], args[1], e)
        if name.startswith("operator.") and name.split(".", 1)[1] in ("lt", "le", "gt", "ge", "eq", "ne") and len(args) == 2 and not kwargs:
            return self.compare({"lt": ast.Lt, "le": ast.LtE, "gt": ast.Gt, "ge": ast.GtE, "eq": ast.Eq, "ne": ast.NotEq}[name.split(".", 1)[1]](), args[0], args[1], e)
        if name in ("bisect.bisect_right", "bisect.bisect", "bisect.bisect_left", "bisect_right", "bisect_left", "bisect.insort", "bisect.insort_right", "bisect.insort_left", "insort") and len(args) == 2 and isinstance(args[0], ListV) and set(kwargs) <= {"key"}:
            # position of x in the sorted list a, found by the comparisons the library makes (x < a[i] / a[i] < x)
            a, x = args[0], args[1]
            keyf = kwargs.get("key")
            kx = (lambda v: self.apply(keyf, [v], {}, e, None)) if keyf is not None and keyf is not NONE else (lambda v: v)
            left = name.endswith("_left")
            insort = "insort" in name
            xv = kx(x) if insort or keyf is None or keyf is NONE else x
            lo, hi = 0, len(a.items)
            while lo < hi:
                mid = (lo + hi) // 2
                if left:
                    go_right = self.truth(self.compare(ast.Lt(), kx(a.items[mid]), xv, e), e)
                else:
                    go_right = not self.truth(self.compare(ast.Lt(), xv, kx(a.items[mid]), e), e)
                if go_right:
                    lo = mid + 1
                else:
                    hi = mid
            if insort:
                a.items.insert(lo, x)
                return NONE
            return lo
        if name in ("itertools.repeat", "repeat") and args:
            if len(args) == 2 and isinstance(args[1], int):
                return ListV([args[0]] * args[1])
            return RepeatV(args[0])
        if name in ("itertools.starmap", "starmap") and len(args) == 2:
            return IterV([self.apply(args[0], list(self.iterate(x, e)), {}, e, None) for x in self.iterate(args[1], e)])
        if name in ("itertools.compress", "compress") and len(args) == 2:
            data, sel = self.iterate(args[0], e), self.iterate(args[1], e)
            return IterV([d for d, s_ in zip(data, sel) if self.truth(s_, e)])
        if name in ("itertools.islice", "islice") and len(args) in (2, 3) and all(isinstance(x, int) or x is NONE for x in args[1:]):
            b = [None if x is NONE else x for x in args[1:]]
            return IterV(self.iterate(args[0], e)[slice(*b)])
        if name in ("itertools.filterfalse", "filterfalse") and len(args) == 2:
            return IterV([x for x in self.iterate(args[1], e) if not self.truth(x if args[0] is NONE else self.apply(args[0], [x], {}, e, None), e)])
        if name in ("itertools.zip_longest", "zip_longest") and args:
            import itertools as _it

            return IterV([TupV(list(t)) for t in _it.zip_longest(*[self.iterate(a, e) for a in args], fillvalue=kwargs.get("fillvalue", NONE))])
        if name in ("itertools.product", "product") and args and not kwargs:
            import itertools as _it

            return IterV([TupV(list(t)) for t in _it.product(*[self.iterate(a, e) for a in args])])
        if name in ("itertools.accumulate", "accumulate") and len(args) == 1:
            out, acc = [], None
            for i, x in enumerate(self.iterate(args[0], e)):
                acc = x if i == 0 else self.binop(ast.Add(), acc, x, e)
                out.append(acc)
            return IterV(out)
        if name in ("functools.reduce", "reduce") and len(args) in (2, 3):
            items = self.iterate(args[1], e)
            if len(args) == 3:
                acc = args[2]
            elif items:
                acc, items = items[0], items[1:]
            else:
                raise _Raise(e, "reduce() of empty iterable with no initial value", "TypeError")
            for x in items:
                acc = self.apply(args[0], [acc, x], {}, e, None)
            return acc
        if name in ("itertools.count", "count"):
            start = args[0] if args else 0
            step = args[1] if len(args) > 1 else 1
            if isinstance(start, int) and isinstance(step, int):
                return IterV([start + i * step for i in range(64)])  # a long enough prefix of the endless sequence
            raise Undecided("itertools.count(%r)" % (start,))
        if name in ("functools.partial", "partial") and args:
            return PartialV(args[0], args[1:], kwargs)
        if name in ("operator.attrgetter", "attrgetter") and len(args) == 1 and isinstance(args[0], Str) and args[0].is_lit():
            a0 = args[0].text()

            def getter(a, k, a0=a0):
                v = a[0]
                for part in a0.split("."):
                    v = self.getattr(v, part, e, None)
                return v

            return PyFunc(getter, "attrgetter(%r)" % a0)
        if name in ("operator.itemgetter", "itemgetter") and len(args) == 1:
            i0 = args[0]
            return PyFunc(lambda a, k: self.subscript(a[0], ast.Constant(value=i0 if isinstance(i0, int) else i0.text()), {}, None, e), "itemgetter")
        if name in ("collections.deque", "deque") and len(args) <= 1 and not kwargs:
            return ListV(list(self.iterate(args[0], e)) if args else [])  # a list with popleft / appendleft
        if name in ("collections.defaultdict", "defaultdict"):
            d = DictV()
            d.default = args[0] if args else None
            return d
        if name in ("itertools.chain", "chain"):
            return IterV([x for a in args for x in self.iterate(a, e)])
        if name in ("itertools.chain.from_iterable", "chain.from_iterable"):
            return IterV([x for a in self.iterate(args[0], e) for x in self.iterate(a, e)])
        if name == "copy.deepcopy" and len(args) >= 1:
            memo = {}

            def deep(v):
                if id(v) in memo:
                    return memo[id(v)]
                if isinstance(v, Lenient):
                    return v
                if isinstance(v, Obj):
                    if getattr(v, "ext_types", None):
                        return v  # geometry of an outside library, immutable: the copy is as good as the original
                    o = Obj(v.cls, {}, v.closed, label=("copy of %r" % v))
                    o.copied_from = v
                    o.dyn = dict(getattr(v, "dyn", {}) or {})
                    memo[id(v)] = o
                    for k, x in v.fields.items():
                        o.fields[k] = deep(x)
                    return o
                if isinstance(v, NamedTupV):
                    return NamedTupV(v.cls, v.names, [deep(x) for x in v.items])
                if isinstance(v, ListV):
                    o = type(v)([])
                    memo[id(v)] = o
                    o.items = [deep(x) for x in v.items]
                    if hasattr(v, "ext_types"):
                        o.ext_types = v.ext_types
                    return o
                if isinstance(v, DictV):
                    o = DictV({})
                    memo[id(v)] = o
                    for k, x in v.d.items():
                        o.d[k] = deep(x)
                    if getattr(v, "default", None) is not None:
                        o.default = v.default
                    return o
                return v

            return deep(args[0])
        if name in ("copy.copy", "copy.deepcopy") and len(args) >= 1:
            v = args[0]
            if isinstance(v, Obj):
                o = Obj(v.cls, dict(v.fields), v.closed, label=("copy of %r" % v))
                o.copied_from = v
                return o
            if isinstance(v, ListV):
                return type(v)(list(v.items))
            if isinstance(v, DictV):
                return DictV(dict(v.d))
            return v
        if name in ("np.float64", "numpy.float64", "np.float32", "np.double", "np.int64", "np.asarray") and len(args) == 1 and not kwargs and is_numeric(args[0]):
            return args[0]  # a conversion between number types: the value is the same
        if name.split(".")[0] in self.pure_modules or name in self.pure_calls:
            r = Ctor(name, dict({"arg%d" % i: a for i, a in enumerate(args)}, **kwargs), kind="call")
            self.trace.append(("call", e, r))
            return r
        if name == "re.compile":
            if args and isinstance(args[0], Str) and args[0].is_lit():
                return PatternV(args[0].text())
            raise AnalysisError("re.compile of a non-constant pattern at line %d" % e.lineno)
        if name in ("re.sub", "re.findall", "re.fullmatch", "re.match", "re.split"):
            pat = args[0]
            if isinstance(pat, PatternV):
                pat = Str.lit(pat.pattern)
            if not (isinstance(pat, Str) and pat.is_lit()):
                raise AnalysisError("%s with a non-constant pattern at line %d" % (name, e.lineno))
            return self.pattern_op(name[3:], pat.text(), args[1:], kwargs, e)
        raise AnalysisError("call of %s at line %d is not modelled" % (name, e.lineno))

    def pattern_op(self, op, pattern, args, kwargs, e):
        if op == "sub":
            repl, s = args[0], args[1]
            if isinstance(s, Frag):
                return s
            if isinstance(s, Str) and s.is_lit() and len(args) == 2:
                # constant folding: the text is a literal
                import re as _re

                if isinstance(repl, Str) and repl.is_lit():
                    return Str.lit(_re.sub(pattern, repl.text(), s.text()))
                if isinstance(repl, FuncV):
                    def cb(m):
                        groups = {0: Str.lit(m.group(0))}
                        for i, g in enumerate(m.groups(), 1):
                            groups[i] = NONE if g is None else Str.lit(g)
                        for k, g in m.groupdict().items():
                            groups[k] = NONE if g is None else Str.lit(g)
                        r = self.apply(repl, [MatchV(groups)], {}, e, None)
                        if not (isinstance(r, Str) and r.is_lit()):
                            raise AnalysisError("re.sub replacement function does not fold to text at line %d" % e.lineno)
                        return r.text()

                    return Str.lit(_re.sub(pattern, cb, s.text()))
            if not (isinstance(repl, Str) and repl.is_lit() and isinstance(s, Str)):
                raise AnalysisError("re.sub arguments at line %d" % e.lineno)
            return re_sub_class(pattern, repl.text(), s)
        if op == "findall":
            s = args[0]
            if isinstance(s, Frag):
                return s
            if not isinstance(s, Str):
                raise _Raise(e, "re.findall on %r" % (s,))
            return re_findall_class(pattern, s)
        if op in ("fullmatch", "match"):
            s = args[0]
            if isinstance(s, Frag):
                raise Undecided("matching a fragment")
            if not isinstance(s, Str):
                raise _Raise(e, "regex match on %r" % (s,))
            self.trace.append(("pattern-" + op, e, pattern))
            g = Grammar(pattern).fullmatch(s)
            return NONE if g is None else MatchV(g)
        if op == "split":
            s = args[0]
            if isinstance(s, Str) and len(pattern) == 1 and pattern not in ".^$*+?{}[]\\|()":
                return str_split(s, pattern)
        raise AnalysisError("regex operation %s at line %d is not modelled" % (op, e.lineno))

    def module_value(self, mod, name):
        """value of a module-level name; a call at module level (a sentinel object, a compiled pattern, a record) is
        made once, as at import time, so that the name denotes one object"""
        e = mod.assigns[name]
        if not isinstance(e, ast.Call):
            return self.ev(e, {"__mod__": mod}, mod)
        key = (mod.rel, name)
        if key not in self.module_cache:
            self.module_cache[key] = self.ev(e, {"__mod__": mod}, mod)
        return self.module_cache[key]

    def outside_value(self, v):
        """a value made by an uninterpreted pure module (numpy array expression, shapely geometry, ...)"""
        while isinstance(v, Ctor) and v.name.startswith(".") and "of" in v.args:
            v = v.args["of"]
        return isinstance(v, Ctor) and v.name.split(".")[0] in self.pure_modules

    def method(self, recv, name, args, kwargs, e):
        """methods of abstract values"""
        if isinstance(recv, Frag):
            return recv
        if self.outside_value(recv):
            key = ".%s()" % name
            if key in self.model_calls:
                return self.model_calls[key]([recv] + list(args), kwargs)
            r = Ctor(key, dict({"of": recv}, **dict({"arg%d" % i: a for i, a in enumerate(args)}, **kwargs)), kind="call")
            self.trace.append(("call", e, r))
            return r
        if isinstance(recv, Str):
            if name == "join":
                items = self.iterate(args[0], e)
                out = Str()
                for i, x in enumerate(items):
                    if isinstance(x, Frag):
                        return x
                    if not isinstance(x, Str):
                        raise _Raise(e, "join of a non-string item %r" % (x,))
                    out = out + (recv if i else Str()) + x
                return out
            if name == "split":
                if not args:
                    raise AnalysisError("split() on whitespace at line %d" % e.lineno)
                sep = args[0]
                if not (isinstance(sep, Str) and sep.is_lit()):
                    raise AnalysisError("split separator at line %d" % e.lineno)
                if len(args) > 1 or kwargs:
                    raise AnalysisError("split with maxsplit at line %d" % e.lineno)
                return str_split(recv, sep.text())
            if name == "translate" and len(args) == 1 and isinstance(args[0], DictV):
                # a table {code point: None | text | code point}
                table = {}
                for k, v in args[0].d.items():
                    if not isinstance(k, int) or isinstance(k, bool):
                        raise Undecided("translate table key %r" % (k,))
                    if v is NONE:
                        table[k] = None
                    elif isinstance(v, Str) and v.is_lit():
                        table[k] = v.text()
                    elif isinstance(v, int) and not isinstance(v, bool):
                        table[k] = v
                    else:
                        raise Undecided("translate table value %r" % (v,))
                if not _sym_safe(recv, "".join(chr(k) for k in table)):
                    return Frag("translate may alter %s" % recv.text())
                return Str([("lit", p[1].translate(table)) if p[0] == "lit" else p for p in recv.pieces])
            if name == "replace":
                a, b = args[0], args[1]
                if not (isinstance(a, Str) and a.is_lit() and isinstance(b, Str) and b.is_lit()):
                    raise AnalysisError("replace arguments at line %d" % e.lineno)
                return str_replace(recv, a.text(), b.text())
            if name in ("strip", "lstrip", "rstrip"):
                chars = args[0].text() if args else " \t\n\r"
                ps = list(recv.pieces)
                if ps and ps[0][0] == "lit" and name != "rstrip":
                    ps[0] = ("lit", ps[0][1].lstrip(chars))
                elif ps and ps[0][0] == "sym" and name != "rstrip" and ps[0][1].charset & set(chars):
                    return Frag("strip may alter <%s>" % ps[0][1].name)
                if ps and ps[-1][0] == "lit" and name != "lstrip":
                    ps[-1] = ("lit", ps[-1][1].rstrip(chars))
                elif ps and ps[-1][0] == "sym" and name != "lstrip" and ps[-1][1].charset & set(chars):
                    return Frag("strip may alter <%s>" % ps[-1][1].name)
                return Str(ps)
            if name in ("startswith", "endswith") and isinstance(args[0], Str) and args[0].is_lit():
                t = args[0].text()
                cells = recv.cells() if name == "startswith" else recv.cells()[::-1]
                tt = t if name == "startswith" else t[::-1]
                for i, ch in enumerate(tt):
                    if i >= len(cells):
                        return False
                    if cells[i][0] == "sym":
                        raise Undecided("%s(%r) on %s" % (name, t, recv.text()))
                    if cells[i][1] != ch:
                        return False
                return True
            if name == "format":
                fmt = recv.text() if recv.is_lit() else None
                if fmt is None:
                    raise AnalysisError("format on a non-constant string")
                out, k, i = [], 0, 0
                while i < len(fmt):
                    if fmt[i] == "{":
                        j = fmt.index("}", i)
                        fld = fmt[i + 1 : j]
                        if fld == "":
                            v = args[k]
                            k += 1
                        elif fld.isdigit():
                            v = args[int(fld)]
                        elif fld in kwargs:
                            v = kwargs[fld]
                        else:
                            raise AnalysisError("format field {%s}" % fld)
                        sv = self.to_str(v)
                        if isinstance(sv, Frag):
                            return sv
                        out += list(sv.pieces)
                        i = j + 1
                        continue
                    out.append(("lit", fmt[i]))
                    i += 1
                return Str(out)
            if name in ("upper", "lower") and recv.is_lit():
                return Str.lit(getattr(recv.text(), name)())
            if name == "isdigit":
                if all(p[0] == "lit" and p[1].isdigit() or p[0] == "sym" and p[1].charset <= set("0123456789") for p in recv.pieces) and recv.pieces:
                    return True
                if any(p[0] == "lit" and not p[1].isdigit() or p[0] == "sym" and not (p[1].charset & set("0123456789")) for p in recv.pieces):
                    return False
                raise Undecided("isdigit on %s" % recv.text())
        if isinstance(recv, ElemV):
            if name == "set":
                recv.attrib.d[self.key_of(args[0])] = args[1]
                return NONE
            if name == "get":
                k = self.key_of(args[0])
                return recv.attrib.d.get(k, args[1] if len(args) > 1 else kwargs.get("default", NONE))
            def adopt(child):
                # lxml: an element has one parent; appending it elsewhere moves it
                if isinstance(child, ElemV):
                    old = getattr(child, "parent", None)
                    if old is not None:
                        old.children.items[:] = [c for c in old.children.items if c is not child]
                    child.parent = recv
                return child

            if name == "append":
                recv.children.items.append(adopt(args[0]))
                return NONE
            if name == "extend":
                for c_ in list(self.iterate(args[0], e)):
                    recv.children.items.append(adopt(c_))
                return NONE
            if name == "insert" and isinstance(args[0], int):
                recv.children.items.insert(args[0], adopt(args[1]))
                return NONE
            if name in ("find", "findall", "iter", "iterchildren", "iterfind"):
                want = args[0] if args else None
                if want is not None and not (isinstance(want, Str) and want.is_lit() and "/" not in want.text() and "[" not in want.text()):
                    raise AnalysisError("element path %r at line %d is not modelled" % (want, e.lineno))
                hits = []
                for c in recv.children.items:
                    if want is None:
                        hits.append(c)
                    elif isinstance(c, ElemV):
                        if isinstance(c.tag, Str) and c.tag.is_lit():
                            if c.tag.text() == want.text():
                                hits.append(c)
                        else:
                            raise Undecided("tag %r against %r" % (c.tag, want))
                if name == "find":
                    return hits[0] if hits else NONE
                return ListV(hits)
            if name == "findtext":
                want = args[0]
                for c in recv.children.items:
                    if isinstance(c, ElemV) and isinstance(c.tag, Str) and c.tag.is_lit() and isinstance(want, Str) and c.tag.text() == want.text():
                        return c.text if c.text is not NONE else Str.lit("")
                return args[1] if len(args) > 1 else kwargs.get("default", NONE)
            if name in ("items", "keys"):
                return ListV([TupV([self.unkey(k), v]) for k, v in recv.attrib.d.items()]) if name == "items" else ListV([self.unkey(k) for k in recv.attrib.d])
            if name == "getchildren":
                return ListV(list(recv.children.items))
        if isinstance(recv, SetV):
            if name == "add":
                if not any(same(args[0], y) for y in recv.items):
                    recv.items.append(args[0])
                return NONE
            if name in ("discard", "remove"):
                hit = [y for y in recv.items if same(args[0], y)]
                if not hit and name == "remove":
                    raise _Raise(e, "KeyError", "KeyError")
                recv.items[:] = [y for y in recv.items if not same(args[0], y)]
                return NONE
            if name == "update":
                for a in args:
                    for x in self.iterate(a, e):
                        if not any(same(x, y) for y in recv.items):
                            recv.items.append(x)
                return NONE
            if name in ("union", "intersection", "difference"):
                other = [x for a in args for x in self.iterate(a, e)]
                if name == "union":
                    out = SetV(list(recv.items))
                    for x in other:
                        if not any(same(x, y) for y in out.items):
                            out.items.append(x)
                    return out
                keep = name == "intersection"
                return SetV([x for x in recv.items if any(same(x, y) for y in other) == keep])
            if name == "copy":
                return SetV(list(recv.items))
            if name in ("difference_update", "intersection_update"):
                other = [x for a in args for x in self.iterate(a, e)]
                keep = name == "intersection_update"
                recv.items[:] = [x for x in recv.items if any(same(x, y) for y in other) == keep]
                return NONE
            if name in ("issubset", "issuperset", "isdisjoint"):
                other = self.iterate(args[0], e)
                if name == "issubset":
                    return all(any(same(x, y) for y in other) for x in recv.items)
                if name == "issuperset":
                    return all(any(same(x, y) for y in recv.items) for x in other)
                return not any(any(same(x, y) for y in other) for x in recv.items)
            if name == "clear":
                recv.items[:] = []
                return NONE
            if name == "pop":
                if not recv.items:
                    raise _Raise(e, "pop from an empty set", "KeyError")
                return recv.items.pop()
        if self._is_matrix(recv) and name in ("dot", "__matmul__") and len(args) == 1 and not kwargs and isinstance(args[0], ListV):
            other = args[0]
            mul = lambda x, y: self.binop(ast.Mult(), x, y, e)
            add = lambda x, y: self.binop(ast.Add(), x, y, e)

            def zero(x):
                return isinstance(x, (int, float)) and not isinstance(x, bool) and x == 0

            def one(x):
                return isinstance(x, (int, float)) and not isinstance(x, bool) and x == 1

            def inner(row, col):
                acc = None
                for x, y in zip(row, col):
                    if zero(x) or zero(y):
                        continue
                    t = y if one(x) else x if one(y) else mul(x, y)
                    acc = t if acc is None else add(acc, t)
                return 0.0 if acc is None else acc

            if self._is_matrix(other):
                if len(recv.items[0].items) != len(other.items):
                    raise _Raise(e, "shapes not aligned", "ValueError")
                cols = [[r.items[j] for r in other.items] for j in range(len(other.items[0].items))]
                out = ListV([ListV([inner(r.items, c_) for c_ in cols]) for r in recv.items])
                for r in out.items:
                    r.ext_types = {"ndarray"}
                out.ext_types = {"ndarray"}
                return out
            if len(recv.items[0].items) == len(other.items) and not any(isinstance(x, ListV) for x in other.items):
                out = ListV([inner(r.items, other.items) for r in recv.items])
                out.ext_types = {"ndarray"}
                return out
        if self._is_matrix(recv) and name == "transpose" and not args:
            out = ListV([ListV([r.items[j] for r in recv.items]) for j in range(len(recv.items[0].items))])
            for r in out.items:
                r.ext_types = {"ndarray"}
            out.ext_types = {"ndarray"}
            return out
        if isinstance(recv, ListV) and "ndarray" in getattr(recv, "ext_types", ()) and name == "tolist" and not args:
            return ListV(list(recv.items))
        if isinstance(recv, ListV) and "ndarray" in getattr(recv, "ext_types", ()) and name in ("all", "any") and not args and all(isinstance(i, bool) for i in recv.items):
            return all(recv.items) if name == "all" else any(recv.items)
        if type(recv) is ListV and name == "popleft" and not args:
            if not recv.items:
                raise _Raise(e, "pop from an empty deque", "IndexError")
            return recv.items.pop(0)
        if type(recv) is ListV and name == "appendleft" and len(args) == 1:
            recv.items.insert(0, args[0])
            return NONE
        if isinstance(recv, ListV) and not isinstance(recv, TupV) and not isinstance(recv, SetV):
            if name == "append":
                recv.items.append(args[0])
                return NONE
            if name == "extend":
                recv.items.extend(self.iterate(args[0], e))
                return NONE
            if name == "insert" and isinstance(args[0], int):
                recv.items.insert(args[0], args[1])
                return NONE
            if name == "pop":
                try:
                    return recv.items.pop(*[a for a in args if isinstance(a, int)])
                except IndexError:
                    raise _Raise(e, "pop from empty list")
            if name == "copy":
                return ListV(recv.items)
            if name in ("sort", "reverse"):
                if name == "reverse":
                    recv.items.reverse()
                    return NONE
                r = self.builtin("sorted", [recv], dict(kwargs) if kwargs else {}, e)
                recv.items[:] = r.items
                return NONE
            if name == "index":
                for i, x in enumerate(recv.items):
                    if self.equal(x, args[0]):
                        return i
                raise _Raise(e, "value is not in the list", "ValueError")
            if name == "count":
                return sum(1 for x in recv.items if self.equal(x, args[0]))
            if name == "remove":
                for i, x in enumerate(recv.items):
                    if self.equal(x, args[0]):
                        del recv.items[i]
                        return NONE
                raise _Raise(e, "list.remove(x): x not in list", "ValueError")
            if name == "clear":
                recv.items[:] = []
                return NONE
        if isinstance(recv, DictV):
            if name == "get":
                k = self.key_of(args[0])
                return recv.d.get(k, args[1] if len(args) > 1 else NONE)
            if name == "items":
                return ListV([TupV([self.unkey(k), v]) for k, v in recv.d.items()])
            if name == "values":
                return ListV(list(recv.d.values()))
            if name == "keys":
                return ListV([self.unkey(k) for k in recv.d])
            if name == "update":
                for a in args:
                    if isinstance(a, DictV):
                        recv.d.update(a.d)
                    else:
                        for pair in self.iterate(a, e):
                            if not (isinstance(pair, ListV) and len(pair.items) == 2):
                                raise AnalysisError("dict.update with %r at line %d" % (pair, e.lineno))
                            recv.d[self.key_of(pair.items[0])] = pair.items[1]
                recv.d.update(kwargs)
                return NONE
            if name == "pop":
                k = self.key_of(args[0])
                if k in recv.d:
                    return recv.d.pop(k)
                if len(args) > 1:
                    return args[1]
                raise _Raise(e, "KeyError %r" % (k,), "KeyError")
            if name == "setdefault":
                k = self.key_of(args[0])
                return recv.d.setdefault(k, args[1] if len(args) > 1 else NONE)
            if name == "copy":
                return DictV(dict(recv.d))
        if isinstance(recv, MatchV):
            if name == "group":
                if len(args) != 1:
                    return TupV([self.subscript_group(recv, a, e) for a in args])
                return self.subscript_group(recv, args[0], e)
            if name == "groupdict":
                return DictV(dict(recv.groups))
        if isinstance(recv, PatternV):
            if name in ("fullmatch", "match", "sub", "findall"):
                return self.pattern_op(name, recv.pattern, args, kwargs, e)
        raise AnalysisError("method .%s of %r at line %d is not modelled" % (name, recv, e.lineno))

    def subscript_group(self, m, k, e):
        kk = self.key_of(k)
        if kk not in m.groups:
            raise _Raise(e, "no such group %r" % (kk,))
        return m.groups[kk]

    def subscript(self, v, sl, env, mod, node):
        if isinstance(v, Frag):
            return v
        if isinstance(v, Obj) and v.cls is not None and not isinstance(v, Lenient):
            owner, fn = self.repo.find_method(v.cls, "__getitem__")
            if fn is not None:
                key = self.ev(sl, env, mod) if not isinstance(sl, ast.Slice) else None
                if key is None:
                    raise Undecided("slice of %r" % (v,))
                return self.call_fn(FuncV(fn, self_val=v, cls=owner, mod=owner.mod), [key], {}, node)
        if self.outside_value(v) or (isinstance(v, Sym) and isinstance(sl, (ast.Slice, ast.Tuple))):
            # an item / a slice of a value of an uninterpreted library (an array): an uninterpreted function of it;
            # slices keep their bounds so that rules can tell the whole from a part
            if isinstance(sl, ast.Slice):
                b = {k: (self.ev(x, env, mod) if x is not None else NONE) for k, x in (("lo", sl.lower), ("hi", sl.upper), ("step", sl.step))}
                return Ctor(".slice", dict({"of": v}, **b), kind="call")
            if isinstance(sl, ast.Name):
                sv = self.ev(sl, env, mod)
                if isinstance(sv, Obj) and sv.label == "slice object":
                    return Ctor(".slice", {"of": v, "lo": sv.fields["start"], "hi": sv.fields["stop"], "step": sv.fields["step"]}, kind="call")
            return Ctor(".item", {"of": v, "index": Str.lit(ast.unparse(sl))}, kind="call")
        if isinstance(sl, ast.Name):
            sv = self.ev(sl, env, mod)
            if isinstance(sv, Obj) and sv.label == "slice object" and isinstance(v, ListV):
                b = [None if x is NONE else x for x in (sv.fields["start"], sv.fields["stop"], sv.fields["step"])]
                if all(x is None or (isinstance(x, int) and not isinstance(x, bool)) for x in b):
                    return type(v)(v.items[slice(*b)])
        if isinstance(sl, ast.Slice):
            lo = self.ev(sl.lower, env, mod) if sl.lower is not None else None
            hi = self.ev(sl.upper, env, mod) if sl.upper is not None else None
            step = self.ev(sl.step, env, mod) if sl.step is not None else None
            if not all(x is None or (isinstance(x, int) and not isinstance(x, bool)) for x in (lo, hi, step)):
                raise AnalysisError("slice at line %d is not constant" % node.lineno)
            if isinstance(v, Str):
                if step is not None:
                    raise AnalysisError("string slice with a step at line %d" % node.lineno)
                return str_slice(v, lo, hi)
            if isinstance(v, ListV):
                return type(v)(v.items[lo:hi:step])
            raise AnalysisError("slicing %r" % (v,))
        if isinstance(sl, ast.Tuple) and isinstance(v, ListV) and "ndarray" in getattr(v, "ext_types", ()):
            # numpy column of a 2-d array: a[:, k]
            if len(sl.elts) == 2 and isinstance(sl.elts[0], ast.Slice) and not any((sl.elts[0].lower, sl.elts[0].upper, sl.elts[0].step)):
                k = self.ev(sl.elts[1], env, mod)
                if isinstance(k, int) and all(isinstance(r, ListV) for r in v.items):
                    out = ListV([r.items[k] for r in v.items])
                    out.ext_types = {"ndarray"}
                    return out
            raise AnalysisError("array subscript at line %d is not modelled" % node.lineno)
        k = self.ev(sl, env, mod)
        if isinstance(v, Str):
            r = str_index(v, k)
            if isinstance(r, Raised):
                raise _Raise(node, r.what)
            return r
        if isinstance(v, ListV):
            if not isinstance(k, int):
                raise AnalysisError("list index %r at line %d" % (k, node.lineno))
            try:
                return v.items[k]
            except IndexError:
                raise _Raise(node, "list index %d out of range" % k, "IndexError")
        if isinstance(v, DictV):
            kk = self.key_of(k)
            if kk not in v.d:
                if getattr(v, "default", None) is not None:
                    v.d[kk] = self.apply(v.default, [], {}, node, mod)
                    return v.d[kk]
                raise _Raise(node, "KeyError %r" % (kk,), "KeyError")
            return v.d[kk]
        if isinstance(v, MatchV):
            kk = self.key_of(k)
            if kk not in v.groups:
                raise _Raise(node, "no such group %r" % (kk,))
            return v.groups[kk]
        if isinstance(v, ClassRef) and v.cls.is_enum:
            if isinstance(k, Frag):
                return k
            if isinstance(k, Str) and k.is_lit():
                if k.text() in v.cls.enum_members():
                    return self.getattr(v, k.text(), node, mod)
                raise _Raise(node, "KeyError %s[%r]" % (v.cls.name, k.text()))
            raise Undecided("%s[%r]" % (v.cls.name, k))
        raise AnalysisError("subscript of %r at line %d is not modelled" % (v, node.lineno))


def _walk_own(fn):
    """nodes of a function body without those of nested functions / lambdas"""
    stack = [st for st in fn.body if not isinstance(st, (ast.FunctionDef, ast.AsyncFunctionDef, ast.ClassDef))]
    while stack:
        n = stack.pop()
        yield n
        for c in ast.iter_child_nodes(n):
            if not isinstance(c, (ast.FunctionDef, ast.AsyncFunctionDef, ast.Lambda, ast.ClassDef)):
                stack.append(c)


def _load(t):
    t2 = ast.parse(ast.unparse(t), mode="eval").body
    return t2

#!/usr/bin/env python3
"""tools/record_fixes.py <PID> <N>: record the last N 'fix:' commits of /repo as fixed entries (developer tool)."""
import json, subprocess, sys
pid, n = sys.argv[1], int(sys.argv[2])
log = subprocess.check_output(["git", "-C", "/repo", "log", "--format=%h %s", "-%d" % n]).decode().strip().splitlines()
p = "/verif/known_findings.json"
k = json.load(open(p))
for l in reversed(log):
    h, _, msg = l.partition(" ")
    assert msg.startswith("fix: "), l
    e = "fixed: property=%s %s %s" % (pid, h, msg[5:])
    if not any(h in x for x in k["fixed"]):
        k["fixed"].append(e)
        print(e)
json.dump(k, open(p, "w"), indent=1)

#!/usr/bin/env python3
"""tools/rule_table.py — markdown table of rule instance counts per check, read from /verif/evidence/*.json (developer tool)."""
import json
import os

V = os.path.dirname(os.path.dirname(os.path.abspath(__file__)))
print("| id | rules (instances) | obligations |")
print("|----|-------------------|-------------|")
for i in range(1, 21):
    pid = "C%02d" % i
    d = json.load(open(os.path.join(V, "evidence", pid + ".json")))
    c = d["coverage"]
    rules = ", ".join("%s %s" % (k, v) for k, v in sorted(c["rule_instance_counts"].items()))
    known = sum(1 for f in c.get("findings", []) if isinstance(f, dict) and f.get("known"))
    n = c["obligations"]
    extra = " (%d known finding%s)" % (d["violations"] if False else len(c.get("findings", [])), "" if len(c.get("findings", [])) == 1 else "s") if c.get("findings") else ""
    print("| %s | %s | %s%s |" % (pid, rules, n, extra))

#!/usr/bin/env python3
"""tools/try_patch.py <PID> <patch.diff> [--all]  — apply a diff in memory and report the new findings (nothing touches /repo)."""
import importlib
import os
import sys

sys.path.insert(0, os.path.dirname(os.path.dirname(os.path.abspath(__file__))))
from sa import core, selftest  # noqa: E402


def main():
    pid, patch = sys.argv[1], sys.argv[2]
    pids = ["C%02d" % i for i in range(1, 21)] if "--all" in sys.argv else [pid]
    root = "/repo"
    ov = selftest.apply_patch(root, open(patch).read())
    for p in pids:
        base = core.Result(p)
        mod = importlib.import_module("sa.props.%s" % p.lower())
        mod.run(core.Repo(root), base, "quick")
        keys = {f.key for f in base.findings}
        res = core.Result(p)
        try:
            mod.run(core.Repo(root, overrides=ov), res, "quick")
            new = [f for f in res.findings if f.key not in keys]
            try:
                res.verify_instance_counts()
            except core.AnalysisError as e:
                if not new:
                    print(p, "ANALYSIS-ERROR", e)
                    continue
        except core.AnalysisError as e:
            print(p, "ANALYSIS-ERROR", e)
            continue
        print(p, "new findings: %d" % len(new))
        for f in new[:6]:
            print("   ", str(f)[:400])


main()

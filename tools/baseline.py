#!/usr/bin/env python3
"""Run the pinned pytest baseline on /repo (guard off) and compare with /root/.vp/BASELINE.json.
Developer tool (used after every fix: commit), not part of any check."""
import json, os, subprocess, sys, tempfile, xml.etree.ElementTree as ET

base = json.load(open("/root/.vp/BASELINE.json"))
out = tempfile.mktemp(suffix=".xml", dir="/dev/shm" if os.path.isdir("/dev/shm") else None)
cmd = "cd /repo && /venv/bin/python -m pytest -ra -q -p no:cacheprovider --timeout=900 --continue-on-collection-errors --junitxml=%s" % out
env = dict(os.environ)
env.pop("COMMONROAD_IO_VERIF", None)
subprocess.run(cmd, shell=True, env=env, stdout=subprocess.DEVNULL, stderr=subprocess.DEVNULL)
passed = set()
for tc in ET.parse(out).getroot().iter("testcase"):
    if not any(c.tag in ("failure", "error", "skipped") for c in tc):
        passed.add("%s::%s" % (tc.get("classname"), tc.get("name")))
os.unlink(out)
missing = sorted(set(base["stable_pass"]) - passed)
print("baseline stable_pass=%d passed_now=%d missing=%d" % (len(base["stable_pass"]), len(passed), len(missing)))
for m in missing:
    print("  NOW FAILING:", m)
sys.exit(1 if missing else 0)

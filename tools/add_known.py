#!/usr/bin/env python3
"""tools/add_known.py <PID> <key> <what> [why-not-fixed]: add a triaged genuine defect to known_findings.json (developer tool)."""
import json, sys
pid, key, what = sys.argv[1:4]
why = sys.argv[4] if len(sys.argv) > 4 else ""
p = "/verif/known_findings.json"
k = json.load(open(p))
if not any(e["key"] == key and e["property"] == pid for e in k["known"]):
    k["known"].append({"property": pid, "key": key, "what": what, "why_not_fixed": why})
json.dump(k, open(p, "w"), indent=1)
print("known findings:", len(k["known"]))

#!/usr/bin/env python3
"""tools/seeded_preview.py [PID ...] — apply every seeded change in memory (nothing touches /repo) and print what the
property's own check says: break -> caught / MISSED / REFUSED, benign -> silent / FALSE-ALARM / REFUSED."""
import importlib
import json
import os
import sys
from concurrent.futures import ProcessPoolExecutor

sys.path.insert(0, os.path.dirname(os.path.dirname(os.path.abspath(__file__))))
from sa import core, selftest  # noqa: E402

ROOT = "/repo"
BASE = os.path.join(os.path.dirname(os.path.dirname(os.path.abspath(__file__))), "seeded")


def one(args):
    pid, name = args[0], args[1]
    check_pid = args[2] if len(args) > 2 else pid
    r = _one(pid, name, check_pid)
    return (r[0] if check_pid == pid else "%s@%s" % (pid, check_pid),) + r[1:]


def _one(pid, name, check_pid):
    d = os.path.join(BASE, pid, name)
    meta = json.load(open(os.path.join(d, "meta.json")))
    kind = "benign" if meta.get("kind") == "benign" else "break"
    own = pid
    pid = check_pid
    mod = importlib.import_module("sa.props.%s" % pid.lower())
    try:
        ov = selftest.apply_patch(ROOT, open(os.path.join(d, "patch.diff")).read())
    except selftest.PatchError as e:
        return own, name, kind, "STALE", str(e)
    base = core.Result(pid)
    mod.run(core.Repo(ROOT), base, "quick")
    keys = {f.key for f in base.findings}
    res = core.Result(pid)
    try:
        mod.run(core.Repo(ROOT, overrides=ov), res, "quick")
        new = [f for f in res.findings if f.key not in keys]
        if not new:
            res.verify_instance_counts()
    except core.AnalysisError as e:
        return own, name, kind, "REFUSED", str(e)[:160]
    except Exception as e:
        import traceback

        return own, name, kind, "CRASH", traceback.format_exc()[-300:]
    if kind == "break":
        return own, name, kind, "caught" if new else "MISSED", (str(new[0])[:160] if new else "")
    return own, name, kind, "FALSE-ALARM" if new else "silent", (str(new[0])[:160] if new else "")


def main():
    cross = "--cross" in sys.argv
    pids = [a for a in sys.argv[1:] if not a.startswith("-")] or sorted(os.listdir(BASE))
    jobs = []
    for pid in pids:
        if not os.path.isdir(os.path.join(BASE, pid)):
            continue
        for name in sorted(os.listdir(os.path.join(BASE, pid))):
            if os.path.exists(os.path.join(BASE, pid, name, "patch.diff")):
                jobs.append((pid, name))
                if cross and name.startswith("benign"):
                    # a behaviour-preserving change must leave *every* check silent, not only its own property's
                    jobs += [(pid, name, "C%02d" % k) for k in range(1, 21) if "C%02d" % k != pid]
    with ProcessPoolExecutor(max_workers=16) as ex:
        rows = list(ex.map(one, jobs))
    tally = {}
    for pid, name, kind, status, info in rows:
        tally[(kind, status)] = tally.get((kind, status), 0) + 1
        if status not in ("caught", "silent") or "-v" in sys.argv:
            print("%s %-6s %-11s %-50s %s" % (pid, kind, status, name[:50], info))
    print(sorted(tally.items()))


main()

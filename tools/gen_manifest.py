#!/usr/bin/env python3
"""Generate /verif/MANIFEST.json from the table below (developer tool)."""
import json, os

V = os.path.dirname(os.path.dirname(os.path.abspath(__file__)))

CLAIMED = {
    # id: (technique, level text, level note, design ref)
    "C12": (
        "ast dataflow: reaching-definition provenance of every ==/!= operand in each __eq__, constructor-model nullability and declared-type hashability in each __hash__",
        "Decides five structural necessary conditions of the equality/hash contract on every __eq__/__hash__ of the package (self-vs-other operand provenance, coverage of constructor parameters, hash subset of eq, hash totality on constructor defaults, order independence of id sets). It does not decide the 1e-10 rounding numerics.",
        "Trusts CPython ast, the repository's annotations for declared container kinds, and that a default None stored unmodified is what makes an attribute None after construction.",
        "DESIGN.md §2 E-EQHASH, §3 C12",
    ),
}

CLAIMED["C11"] = (
    "ast cache discovery (cached_property / memo getters / frozen eager table) + may-dirty abstract walk of every in-scope mutator with per-(method, cache, bool-flag) summaries over resolved self-calls and typed receiver calls",
    "For every cache found in the package and every mutator the property names (all translate_rotate methods, prediction/trajectory/shape/wheelbase setters, update_initial_state/update_prediction, add/remove lanelet, cycle element/offset setters) decides that each write of a dependency is followed by a refresh on every path to an exit; plus the sibling-statement structure of the history lists in update_initial_state. Covers all interleavings because the obligation is per mutator call. Does not decide in-place mutation through exposed aliases.",
    "Trusts the dependency sets read off the compute code, the frozen eager-cache table (5 rows with reasons), annotations for receiver types, and that Lanelet distances are invariant under rigid motion (C05).",
    "DESIGN.md §2 E-CACHE, §3 C11",
)

CLAIMED["C02"] = (
    "ast extraction of protobuf field writes per builder (.create_message) and field reads per factory (.create_from_message) with reaching-definition provenance of the written value and of where each read value ends up, compared against the parsed .proto message definitions Writer-side goal-lanelet pairing is evaluated on three goal states (protobuf messages as lenient objects); the per-write freshness of the message comes from the effect trace of C15. Behavioural rules are decided by abstract evaluation (sa/strdom.py): the anchored functions are interpreted over their AST on a small symbolic world (objects with atom-valued fields, concrete small collections, uninterpreted outside calls, model functions for outside collaborators), every test must be decidable from the shape case (else the check refuses), and the resulting state / value is compared with what the property requires; nothing of the repository is imported or executed. All modules are first brought into a normal form (sa/unroll.py: constant-table loops unrolled, constant getattr/setattr folded).",
    "Decides per message type the field-level round-trip triangle: every proto field of a written message is set by its builder, every field set is read by the paired factory, the value written from attribute a reaches constructor/attribute slot a (no crossing), enums travel by member name through the same proto enum into the same-named Python enum, double fields receive the bare attribute value (no formatting/rounding), optional fields written under a guard are read under HasField, and builders dereference optional attributes only under a None guard. Equality of concrete values after a round trip is not decided.",
    "Trusts the protobuf runtime, the generated *_pb2 modules matching the .proto files, and annotation-derived domain classes of builder parameters.",
    "DESIGN.md §3 C02",
)

CLAIMED["C18"] = (
    "ast effect (purity) analysis: flow-sensitive provenance of every store / container mutation / setattr to the parameters (and their elements) it may reach, summaries propagated to a fixpoint over the resolved call graph (self calls, typed receivers, setters, unbound class calls, by-name fallback requiring agreement), evaluated at every read-only entry point Augmented assignment with an array value through an alias counts as a write to the aliased object. PURE-RESTORE is decided by evaluating the operation on a small network (sa/strdom.py) and comparing every attribute before and after, index slots against the index invariant.",
    "Per operation, hence for every sequence of operations: no method of a model class other than the named mutator families (401 methods and property getters: queries, goal checks, equality/hash, copy/pickle hooks, draw, derivations such as merge_lanelets) writes into self or a model-typed argument, directly or through callees; no function of the XML/protobuf writers or the visualization modules (239) writes into an object typed as a model class; a read-only method that drops the spatial index rebuilds it before returning. Tolerated: filling an empty memo slot inside the getter that returns it, and the designated index refresh function writing only derived caches (their agreement with the dependencies is C11).",
    "Trusts annotations for receiver types, that third-party code (shapely, lxml, matplotlib, numpy, protobuf) does not mutate model objects handed to it, that objects constructed inside an operation do not alias caller state through their constructor arguments, and the mutator name-family table (operations whose purpose is to change the object).",
    "DESIGN.md §2 E-PURITY, §3 C18",
)

CLAIMED["C04"] = (
    "ast rules: annotation-typed protocol check of every loop over the scenario's obstacle collections, getter/setter attribute agreement, canonicalised argument-role rules at the placement and heading sites, guard implication over linear integer forms (t, initial time step, list length) for the time-step dispatch and the trajectory index, derived role<->registry table for the scenario-level filters Behavioural rules are decided by abstract evaluation (sa/strdom.py): the anchored functions are interpreted over their AST on a small symbolic world (objects with atom-valued fields, concrete small collections, uninterpreted outside calls, model functions for outside collaborators), every test must be decidable from the shape case (else the check refuses), and the resulting state / value is compared with what the property requires; nothing of the repository is imported or executed. All modules are first brought into a normal form (sa/unroll.py: constant-table loops unrolled, constant getattr/setattr folded). Evaluated: the occupancy set of a trajectory prediction (4 shape cases), the time-step look-up of predictions (6 cases), the three scenario-level queries (57 cases). Freshness of stored occupancies comes from the engine of C11.",
    "Decides the structural, necessary part: attributes used on elements of Scenario.obstacles/... exist in every class the collection may hold (or are guarded); a setter stores what its getter reads (129 pairs); the exact occupancy is shape.rotate_translate_local(state.position, state.orientation) and only when neither position nor orientation is a set; headings are atan2(velocity_y, velocity); the initial occupancy and every predicted occupancy are computed from, and stamped with, the state they belong to; static/environment occupancies ignore the time; DynamicObstacle answers the initial data exactly at the initial step, delegates with the same time step only for later steps with a prediction and otherwise None; occupancy lookup returns only a time-step match; the trajectory index is t - initial under guards that imply 0 <= index < len; scenario-level queries ask the per-obstacle answer at the queried step, pair ids and answers of the same element, and iterate the registry of the requested role. Not decided: the enclosing-rectangle formula for uncertain states, numeric values, that state i of a trajectory carries time step initial+i.",
    "Trusts annotations of the collection getters, constructor-established roles, and the naming of the per-obstacle query methods.",
    "DESIGN.md §3 C04",
)

CLAIMED["C19"] = (
    "ast rules on draw_params.py (structure of BaseParam.__setattr__/__post_init__ with syntax-directed guard sets, dataclass/field declarations) and on MPRenderer (parameter attribute chains typed against the declared parameter classes, group selection preludes, nullable-result dereference guards via resolved callee annotations, canonicalised time arguments of occupancy queries, the lanelet id filter) The dispatch of draw_scenario is decided by abstract evaluation on a scenario with one obstacle of every kind (sa/strdom.py).",
    "Decides three structural clauses only. Propagation: an assignment on a group is stored where declared and forwarded unmodified to every nested BaseParam once initialised; __post_init__ switches this on and re-assigns all BaseParam fields; all 22 groups are dataclasses below BaseParam with per-instance nested groups of the declared type. Totality (necessary conditions): all 137 parameter reads in draw_* methods name declared fields of the group type the method selects; every method selects the group of its declared kind from both default and top-level parameters; draw_scenario pairs each obstacle class with its group; possibly-None query results are dereferenced only under a not-None test in the obstacle drawers. Model agreement: the shape drawn is obj.occupancy_at_time(draw_params.time_begin), further occupancies range within [time_begin, time_end); the lanelet loop runs over all lanelets and skips exactly the unselected ids. NOT decided: that drawing completes for every scenario and parameter setting, what matplotlib shows, icons / labels / signals / trajectories.",
    "Trusts dataclasses semantics, annotations of draw_params parameters and query return types, and that the patches appended are what matplotlib renders.",
    "DESIGN.md §3 C19",
)

CLAIMED["C20"] = (
    "sign/shape abstract interpretation of Lanelet._compute_polyline_cumsum_dist (facts: non-negative, first entry zero, Euclidean norm of consecutive differences, propagated through np.diff/square/sum/sqrt/append/amin/cumsum and the column-filling loop); structural recognisers with linear index forms for the interpolation and merge code; syntax-directed dominance, per-path filing counts and list-alignment rules on the two route searches Frontier layouts recognised: parallel lists walked with zip, or one list of (path, length) pairs; constructs outside the vocabulary make the check refuse instead of reporting.",
    "Decides: the cumulative distance is cumsum of a vector proven non-negative with first entry 0 whose entries are recognised as |v[i+1]-v[i]| of the centre line (so it starts at 0, never decreases, ends at the polyline length); interpolate_position uses one index and one ratio (s-d[i])/(d[i+1]-d[i]) for all three polylines with weights (1-r), r on vertices i, i+1 of the matching polyline, found from searchsorted-1 moving forward only while d[i] > s, under an asserted 0 <= s <= length; merge_lanelets cuts all three polylines of the successor at one joint index (1 only if end and start vertex coincide), predecessor first, same boundary with same boundary, constructor roles preserved; in both range searches every extension p+[x] is dominated by x not in p, x != start and length < range, the first frontier is exactly the direct links, candidates are links of the last element, every (path, candidate) control path files exactly once, lists stay aligned, the frontier is rebuilt from an empty list each round (strictly longer loop-free paths: termination on cyclic networks), and both searches have the same abstract signature. Not decided: the interpolation and length values as numbers, floating-point behaviour exactly at vertices.",
    "Trusts numpy semantics of the modelled functions and that lanelet ids identify lanelets uniquely (C09).",
    "DESIGN.md §3 C20",
)

CLAIMED["C17"] = (
    "symbolic abstract interpretation of TrafficLightCycle.cycle_init_timesteps and get_state_at_time_step over a term domain (linear forms in t, offset, total duration T; floored a mod b; table of window starts; mask value<table; first-true index; element selection) with transfer functions for the numpy idioms in use (cumsum, insert/append/concatenate, %, np.mod, fmod, argmax, searchsorted); the computed term is compared with the specification term Recognises the vectorised and the first-index-scan form of the look-up and if-, early-return- and try/except-style memo getters; an in-place update of the memoised table is reported.",
    "Decides that the implementation is an instance of the table-lookup scheme whose symbolic value equals the specification: table = [b, b+d1, .., b+T] from the durations of the cycle's own elements in order; reported state = state of elements[i] with i = (first table entry strictly greater than b + ((t - offset) mod T)) - 1, i.e. the element whose window [start, start+duration) contains the reduced time step, for every t including t < offset (floored modulo) and every later period; TrafficLight returns its cycle's answer for the same t. A recognised term that differs (period, origin, strictness, the -1, table start, element list) is a violation naming the difference; a construct outside the vocabulary makes the check refuse (exit 2) rather than guess. Memo freshness of the table is C11.",
    "Trusts numpy semantics of the modelled functions, positive integer durations and at least one element (as the property assumes), and that np.argmax on a boolean mask returns the first True (one exists because the reduced value is below the last table entry).",
    "DESIGN.md §3 C17 (revised: was planned as not applicable)",
)

CLAIMED["C09"] = (
    "ast pairing analysis of Scenario: id paths reserved per add_objects branch vs released per removal form (single/list), containment guards by syntax-directed dominance, ownership (who may drop / touch _id_set), atomic reservation, counter monotonicity Behavioural rules are decided by abstract evaluation (sa/strdom.py): the anchored functions are interpreted over their AST on a small symbolic world (objects with atom-valued fields, concrete small collections, uninterpreted outside calls, model functions for outside collaborators), every test must be decidable from the shape case (else the check refuses), and the resulting state / value is compared with what the property requires; nothing of the repository is imported or executed. All modules are first brought into a normal form (sa/unroll.py: constant-table loops unrolled, constant getattr/setattr folded). Evaluated: every way of adding and removing each of the eight object kinds (normal, colliding id, not contained, foreign object carrying a contained id, lists, network replacement) on a scenario that contains one object of every kind over a lanelet-network model; afterwards pool == ids of the contained objects. Ownership and the counter stay structural.",
    "Per-operation invariant argument that covers every history: each add branch reserves the id paths of the object it stores in one all-or-nothing step before storing; each removal form releases exactly those paths and only under a containment guard; only designated functions drop objects or touch the id pool; replacing the network releases the old ids; the counter only grows and generate_object_id folds in max(_id_set). Decided for all 9 object kinds and 5 removal functions.",
    "Trusts that Scenario is the only writer of its private registries (other modules reaching into _id_set are out of view) and that LaneletNetwork.remove_* removes exactly the element with the given id.",
    "DESIGN.md §2 E-PAIRING, §3 C09",
)

CLAIMED["C10"] = (
    "ast rules over LaneletNetwork/Scenario: frozen reference-field table vs the assignments in each cleanup_* function (filter against the right registry's id set), must-follow of cleanup after every registry deletion, reaching-definition checks of the cut-out filters, provenance of the hanging-member set difference Behavioural rules are decided by abstract evaluation (sa/strdom.py): the anchored functions are interpreted over their AST on a small symbolic world (objects with atom-valued fields, concrete small collections, uninterpreted outside calls, model functions for outside collaborators), every test must be decidable from the shape case (else the check refuses), and the resulting state / value is compared with what the property requires; nothing of the repository is imported or executed. All modules are first brought into a normal form (sa/unroll.py: constant-table loops unrolled, constant getattr/setattr folded). Evaluated: the clean-up and removal methods of a real LaneletNetwork object with three lanelets, two signs, two lights and an intersection, densely cross-referenced, with and without references to ids that do not exist; afterwards no dangling and no lost reference. Cut-out and hanging-member rules stay structural.",
    "Decides that every id-valued reference field (15 fields in 4 holder classes) is re-filtered by the matching cleanup, that every deletion from _lanelets/_traffic_signs/_traffic_lights is followed by that cleanup on its path, that the cut-out intersects every intersection reference with the kept ids and copies exactly the signs/lights of kept lanelets, and that hanging signs/lights are (referenced by removed) minus (referenced by remaining). Does not decide that untouched relations keep their values.",
    "Trusts the frozen reference-field table (a new id-valued field would have to be added there) and well-formed stop lines (as the property assumes).",
    "DESIGN.md §3 C10",
)

CLAIMED["C05"] = (
    "ast rules: reaching-definition pairing of the rotation-block entries in geometry/transform.py, annotation-typed spatial-attribute coverage of all 21 translate_rotate methods, argument pass-through, protocol completeness over typed receivers, assignability of the attributes State.translate_rotate writes in every State subclass Derived spatial data (occupancy sets, initial occupancy, polygons, vertices, spatial index) under translate_rotate is judged by the freshness engine of C11 (T7-DERIVED).",
    "Decides necessary structure of exactness and totality: the 2x2 block is (cos a, -sin a; sin a, cos a) of the angle parameter on every branch (no approximation branch); every spatial attribute of every class with a translate_rotate is moved (reasoned exception table for local-frame and derived attributes); nested calls receive (translation, angle) unmodified; every class in the Scenario.obstacles union and every other typed receiver defines translate_rotate; State.translate_rotate only assigns stored attributes and classes with a derived heading rotate its dependencies; orientation sums are normalised. Rounding accuracy and invertibility as numbers are not decided.",
    "Trusts annotations for what is spatial, the exception table (20 rows with reasons) and numpy/math semantics.",
    "DESIGN.md §3 C05",
)

CLAIMED["C06"] = (
    "ast sibling-agreement rules on the shape classes (canonicalised expressions: locals inlined, self._x = self.x), structural rules on LaneletNetwork index construction and on the two lookup functions (reaching definitions, dominating guards) Behavioural rules are decided by abstract evaluation (sa/strdom.py): the anchored functions are interpreted over their AST on a small symbolic world (objects with atom-valued fields, concrete small collections, uninterpreted outside calls, model functions for outside collaborators), every test must be decidable from the shape case (else the check refuses), and the resulting state / value is compared with what the property requires; nothing of the repository is imported or executed. All modules are first brought into a normal form (sa/unroll.py: constant-table loops unrolled, constant getattr/setattr folded). Evaluated: every route that builds or changes a lanelet network against the index invariant (17 cases), the two spatial look-ups against a model of the spatial tree, the rectangle corner matrix as linear forms.",
    "Decides that each shape's containment predicate, exported shapely geometry and drawing are built from the same parameters (circle: bare radius/centre, closed disc; rectangle: (+-l/2, +-w/2) ring placed by centre and orientation; polygon: vertex ring with closed bbox pre-filter; group: any member), that the index stores per lanelet id that lanelet's polygon (right + reversed left boundary), that id map and tree are rebuilt together and on every construction route, and that both lookups filter and map tree hits consistently with a boundary-inclusive predicate. Does not decide shapely's predicates, tolerances or polygon validity.",
    "Trusts shapely/STRtree semantics (query returns candidates; predicate names) and the recognised expression idioms (an unrecognised rewrite is reported, see DESIGN §4).",
    "DESIGN.md §3 C06",
)

CLAIMED["C07"] = (
    "ast def-use analysis of the 10 assignment sites (Scenario.assign_obstacles_to_lanelets and the XML/protobuf obstacle factories): origin lookup calls of the registered set vs the stored shape assignment via reaching definitions, lookup-argument and time-step pairing, add/remove sibling agreement and totality of the removing side Behavioural rules are decided by abstract evaluation (sa/strdom.py): the anchored functions are interpreted over their AST on a small symbolic world (objects with atom-valued fields, concrete small collections, uninterpreted outside calls, model functions for outside collaborators), every test must be decidable from the shape case (else the check refuses), and the resulting state / value is compared with what the property requires; nothing of the repository is imported or executed. All modules are first brought into a normal form (sa/unroll.py: constant-table loops unrolled, constant getattr/setattr folded). Evaluated: Scenario.assign_obstacles_to_lanelets (shape and centre-only mode) and the add / remove helpers and remove_obstacle on a world with one static and one dynamic obstacle, look-ups answering from tables, real Lanelet registries.",
    "Decides that at every site the ids registered on lanelets originate from the same find_lanelet_by_shape call as the stored shape assignment (centre set only under use_center_only), that shape lookups use the shape placed at the state and centre lookups that state's position with the registry/assignment time step being that state's, that add and remove helpers walk the same assignment attributes, and that deregistration uses only non-raising operations (so removing a contained obstacle cannot fail there). Geometric truth of the sets is C06; stale registrations after obstacles move are not decided.",
    "Trusts the naming of the assignment sinks (initial_shape_lanelet_ids, shape_lanelet_assignment, ...) and find_lanelet_by_* semantics (C06).",
    "DESIGN.md §3 C07",
)

CLAIMED["C16"] = (
    "interval-domain abstract interpretation (sa/ranges.py: + - * / fmod, arctan2(sin,cos) wrap, if-refinement, syntactic inlining of callees and property getters) of AngleInterval.contains/__contains__ under the class invariant, plus canonicalised structural rules on Interval predicates, arithmetic and setters IMAGE and REJECT are decided by abstract evaluation with numeric terms and a case oracle over sign / order cases (sa/strdom.py); the normalisation loops by their exit facts; CLOSED on inequality sets.",
    "Proves, for all admissible intervals (start,end in [-2pi,2pi], 0 <= end-start < 2pi) and all real query values, that no assert in the containment code can fail, that the compared offset and the bound both range over [0, 2pi) (so the test is a modulo-2pi offset against the true length, not a difference wrapped to [-pi,pi]) with a non-strict comparison; decides closedness and operand pairing of Interval.contains/overlaps/intersection, the end swap of * and / exactly in the non-positive branch (decided on construction outcomes: sign of the factor to the pair handed to the constructor, through per-branch returns, locals, unpacking and conditional expressions), that AngleInterval.contains(interval) compares start offset + argument length with the own length (linear forms), construction of every arithmetic result through the checking constructor, and rejection of start > end. Floating-point rounding at the end points is not decided.",
    "Trusts the transfer functions of the interpreter (math.fmod sign/magnitude, arctan2(sin x, cos x) in [-pi, pi]) and that AngleInterval's constructor establishes the invariant (checked structurally under REJECT).",
    "DESIGN.md §2 E-RANGE, §3 C16",
)
CLAIMED["C08"] = (
    "ast rules on GoalRegion/PlanningProblem: derived-property clobber analysis (stores into dependencies of computed State properties vs later reads, through returned aliases, with receiver classes from annotations), dispatch typing, field-table agreement, conjunction/disjunction structure, attribute pairing, enumerate-index provenance Behavioural rules are decided by abstract evaluation (sa/strdom.py): the anchored functions are interpreted over their AST on a small symbolic world (objects with atom-valued fields, concrete small collections, uninterpreted outside calls, model functions for outside collaborators), every test must be decidable from the shape case (else the check refuses), and the resulting state / value is compared with what the property requires; nothing of the repository is imported or executed. All modules are first brought into a normal form (sa/unroll.py: constant-table loops unrolled, constant getattr/setattr folded). Evaluated: ShapeGroup.contains_point for every pattern of containing members; the angle-interval containment is the interval interpretation of C16 (shared).",
    "Decides the structure of the goal check: no computed state property (PMState.orientation, ExtendedPMState.velocity_y) is read after one of its dependencies was overwritten on the same object; int and float are dispatched alike; the attributes a goal state may constrain are exactly those is_reached checks, each conjoined into the per-goal flag, results disjoined over goal states; each check pairs state.X with goal.X on the harmonised state; speed is norm(vx, vy) and heading atan2(vy, vx) at every site; goal_reached returns the index enumerated with the state that reached the goal. Containment arithmetic is C16; shape containment is C06.",
    "Trusts annotations (TraceState union) for which classes a state variable may have, and the naming of the four checked attributes.",
    "DESIGN.md §3 C08",
)

CLAIMED["C15"] = (
    "ast effect/ordering rules on the two writer classes: transitive accumulating-mutation summary of self fields vs re-initialisation order in each public write method, reachability of reads of module-level mutable cells and clocks through the builder call graph, syntax-directed dominance of file sinks by the skip-return Behavioural rules are decided by abstract evaluation (sa/strdom.py): the anchored functions are interpreted over their AST on a small symbolic world (objects with atom-valued fields, concrete small collections, uninterpreted outside calls, model functions for outside collaborators), every test must be decidable from the shape case (else the check refuses), and the resulting state / value is compared with what the property requires; nothing of the repository is imported or executed. All modules are first brought into a normal form (sa/unroll.py: constant-table loops unrolled, constant getattr/setattr folded). Evaluated: FileWriter._handle_file_path over file name given/defaulted x file exists x policy x user reply (16 cases).",
    "Decides per public write call (hence for every interleaving of constructions and writes): every writer field that is filled while writing is re-created before it is filled; the shared decimal-precision cell read by float_to_str is set from the writer's own stored precision before any node is built; every file sink is dominated by the overwrite policy's skip-return and SKIP answers skip; the only clock read feeds the date stamp. Byte equality of outputs as such is not decided.",
    "Trusts that lxml/protobuf objects carry no hidden global state and single-threaded use (the shared cell is re-established per write, not made thread-safe).",
    "DESIGN.md §3 C15",
)

CLAIMED["C13"] = (
    "abstract interpretation in a string-template domain (sa/strdom.py): ScenarioID.__str__, from_benchmark_id, Solution.benchmark_id and the solution reader are evaluated over the AST on objects whose unbounded fields are indivisible atoms carrying their character-class language, one evaluation per shape case of a valid id; the id grammar is the regex parse tree (re._parser) of the source constant, matched structurally against the printed template to obtain what each named group captures; enum members are folded as constants; nothing of the repository is imported or executed and no solver is used",
    "Decides, for every shape case of a valid scenario id (cooperative or not; map / configuration / one, two, three prediction ids) that the template __str__ prints conforms to benchmark_id_pattern with every named group capturing the field of the same meaning (separators, order, prefix, optional parts, alphabets: behaviour letters from the constructor's validator, map-name alphabet by folding the setter over the printable characters); that from_benchmark_id evaluated on that template with fullmatch constructs a ScenarioID whose every constructor argument equals the field printed (numbers as numbers, one prediction id as a scalar, several as a list, flag, version); and, for one, two and three planning-problem solutions over all vehicle model x type pairs and all cost functions, that _parse_solution evaluated on Solution.benchmark_id builds the i-th PlanningProblemSolution with the i-th model, type, cost function and trajectory node and hands scenario id and version unchanged to the scenario-id parser. Any operation that cuts through an atom yields a fragment that equals nothing; any test not decidable from the shape makes the check refuse (exit 2). Not decided: a list holding a single prediction id (prints like a scalar); the constructor body is not evaluated (parser arguments are compared with fields).",
    "Trusts re._parser's reading of the pattern; assumes country ids are three upper-case letters (ISO-3166 data is external) and numbers positive, as the property states.",
    "DESIGN.md §3 C13 (revised), §9",
)
CLAIMED["C14"] = (
    "constant-table agreement (ast.literal_eval of the enum tables) against each other, the dataclass fields of the reader's class table and the parsed solution XSD; formatter classification of the writer's text expressions Behavioural rules are decided by abstract evaluation (sa/strdom.py): the anchored functions are interpreted over their AST on a small symbolic world (objects with atom-valued fields, concrete small collections, uninterpreted outside calls, model functions for outside collaborators), every test must be decidable from the shape case (else the check refuses), and the resulting state / value is compared with what the property requires; nothing of the repository is imported or executed. All modules are first brought into a normal form (sa/unroll.py: constant-table loops unrolled, constant getattr/setattr folded). Evaluated against an element model: root node -> header parser (3 cases), trajectory node -> trajectory parser (every trajectory type), and the identifying-data round trip shared with C13.",
    "Decides for all 7 trajectory types that StateFields/XMLStateFields/StateType/TrajectoryType are keyed alike, equally long and index-aligned (name correspondence per position), that the XML names, state/trajectory element names, header attributes and integer-typed elements equal the solution schema's for the 6 types it defines, that the reader's class table covers every state type with classes owning all fields (so what can be written can be read), that values are written with the shortest round-trip repr and parsed with float()/int() ('time' only), states are sorted by time step, and date/computation-time formats are mutually inverse. Numeric bit-identity follows from repr round-tripping, which is trusted.",
    "Trusts str(np.float64)/float() round-tripping, xml.etree, and the parsed XSD.",
    "DESIGN.md §2 E-TABLE/E-NUMFMT, §3 C14",
)

CLAIMED["C03"] = (
    "abstract interpretation of the XML builder functions into the emitted element tree (tags, attributes, text expressions, emission order, guards; builder calls expanded, dynamic tags resolved from enums / state fields / obstacle roles) walked against the parsed 2020a XSD; formatter classification of every numeric text expression The guard of float_to_str itself is decided exactly on the representatives of the regions its constants cut; per-write freshness of the root element comes from the effect trace of C15. Modules are first brought into a normal form (sa/unroll.py: constant-table loops unrolled, SubElement split).",
    "Decides for the whole writer (about 200 element/attribute emission sites in 30 builders): every emitted name is allowed by the schema type of its parent in at least one context the builder is used in (type-dispatch branches for inexpressible values excepted), xs:sequence children are emitted in schema order (choice groups unordered), required children and attributes are emitted, decimal-typed text goes through the positional formatter, enumeration text is the enum value, and the writer's attribute-name mapping inverts the reader's on every schema state element. Id/ref key constraints, positiveDecimal ranges and what float_to_str prints for a particular number are not decided.",
    "Trusts the XSD reader (flattened compositors), float_to_str producing plain decimals, and annotations for int-typed sources.",
    "DESIGN.md §2 E-TRIANGLE/E-NUMFMT, §3 C03",
)

CLAIMED["C01"] = (
    "three-way comparison of (a) the element tree with value sources extracted from the XML builders by abstract interpretation with call-site parameter substitution, (b) the lookups and their provenance into constructor keywords extracted from the XML reader factories (reaching definitions, helper-call substitution, control dependence), and (c) the parsed XSD; plus static evaluation of the attribute-name mapping functions The attribute-name maps are folded over every state attribute name and the writer-side goal-lanelet pairing is evaluated on three goal states. Behavioural rules are decided by abstract evaluation (sa/strdom.py): the anchored functions are interpreted over their AST on a small symbolic world (objects with atom-valued fields, concrete small collections, uninterpreted outside calls, model functions for outside collaborators), every test must be decidable from the shape case (else the check refuses), and the resulting state / value is compared with what the property requires; nothing of the repository is imported or executed. All modules are first brought into a normal form (sa/unroll.py: constant-table loops unrolled, constant getattr/setattr folded).",
    "Decides on about 2000 emitted leaves and 19 builder/factory/class pairs: everything written is looked up by the reader as the same kind at the same place; every attribute the reader takes from the file and the schema has a place for is written; per pair each constructor keyword is fed from leaves the writer fills from that same attribute (no crossed or dropped fields); writer and reader name maps are identical / mutually inverse on all 43 state fields; direction/boolean/driving-direction encodings are mutually inverse and exhaustive; ordered collections are written and read in stored order and x,y map to indices 0,1. Numeric closeness (10^-d), which state class the reader matches, and value-dependent behaviour are not decided.",
    "Trusts the frozen pair table (19 rows) and exception table (9 rows with reasons), lxml/ElementTree semantics of find/findall/get, and annotations used to tell nested objects from leaf values.",
    "DESIGN.md §2 E-TRIANGLE, §3 C01",
)

NOT_APPLICABLE = {}

ALL = ["C%02d" % i for i in range(1, 21)]


def main():
    checks = []
    for pid in ALL:
        if pid in CLAIMED:
            tech, text, note, ref = CLAIMED[pid]
            checks.append(
                {
                    "property_id": pid,
                    "quick_cmd": "./check %s --tier quick" % pid,
                    "thorough_cmd": "./check %s --tier thorough" % pid,
                    "evidence_file": "/verif/evidence/%s.json" % pid,
                    "replay_cmd_template": "./check %s --replay {path}" % pid,
                    "engine": "sa",
                    "level_claimed": {"category": "other", "text": text, "design_ref": ref},
                    "level_note": note,
                    "technique": "static analysis: " + tech,
                }
            )
    na = []
    for pid in ALL:
        if pid not in CLAIMED:
            na.append({"property_id": pid, "reason": NOT_APPLICABLE.get(pid, "static check for this property is not built yet in this revision of /verif (see DESIGN.md §3 for the planned rule); nothing is claimed")})
    man = {
        "version": 1,
        "setup_cmd": "python3 -m compileall -q sa >/dev/null 2>&1; ./check C12 --tier quick >/dev/null 2>&1; true",
        "hooks": {
            "guard": "COMMONROAD_IO_VERIF",
            "enable": "none needed: the checks parse /repo's working tree with python ast and never import or run it; no hook commits exist",
            "baseline_off_cmd": "cd /repo && /venv/bin/python -m pytest -ra -q -p no:cacheprovider --timeout=900 --continue-on-collection-errors",
            "source_commits": [],
            "add_only": True,
        },
        "engines": [
            {
                "name": "sa",
                "path": "/verif/sa",
                "serves_properties": sorted(CLAIMED),
                "kind_free_text": "repository-specific static analyser on python ast: class index, constructor model with inlined setters, flow-sensitive reaching definitions and provenance, dominating guards, XSD/.proto readers, writer/reader emission extraction; pure standard library",
            }
        ],
        "checks": checks,
        "not_applicable": na,
        "notes": "Static analysis only: every check re-parses /repo on each run and reports file:line, qualified name, rule and construct. Exit 0 held / 1 VIOLATION / 2 ANALYSIS-ERROR (anchor or idiom no longer recognised). Genuine defects found on the pinned tree were repaired by 'fix:' commits in /repo or are listed in /verif/known_findings.json.",
    }
    with open(os.path.join(V, "MANIFEST.json"), "w") as fh:
        json.dump(man, fh, indent=1)
    print("claimed:", sorted(CLAIMED), "n/a:", [x["property_id"] for x in na])


if __name__ == "__main__":
    main()

#!/usr/bin/env python3
"""Developer tool for the seeded-change corpus under /verif/seeded/<PID>/<name>/ {patch.diff, demo.py, meta.json}.

  tools/seeded.py import <PID> <src_dir>     copy patch_X.diff / demo_X.py / meta_X.json of an agent's output directory
  tools/seeded.py confirm <dir> [--tests]    apply the patch to /repo, run the demo (must show the violation) and every
                                             check (quick tier), restore /repo, run the demo again (must be quiet);
                                             records the outcome in meta.json ("confirmed", "caught_by")
  tools/seeded.py all                        confirm every seeded change and print the catch matrix

The corpus is test input for the checkers; nothing here is part of a registered check, and a seeded change is never
committed in /repo.
"""
import json
import os
import re
import shutil
import subprocess
import sys

VERIF = "/verif"
REPO = "/repo"
PY = "/venv/bin/python"
ALL = ["C%02d" % i for i in range(1, 21)]


def sh(cmd, cwd=None, env=None, timeout=1800):
    p = subprocess.run(cmd, shell=True, cwd=cwd, env=env, stdout=subprocess.PIPE, stderr=subprocess.STDOUT, timeout=timeout)
    return p.returncode, p.stdout.decode(errors="replace")


def _no_warnings(text):
    """the output without the warnings python prints on stderr (`file.py:LINE: XWarning: ..` plus the echoed source
    line): their line numbers move with every edit of the file and say nothing about behaviour"""
    out, skip = [], False
    for ln in text.splitlines():
        if skip and ln.startswith("  "):
            skip = False
            continue
        skip = False
        if re.match(r"^\S+\.py:\d+: \w*Warning", ln):
            skip = True
            continue
        out.append(ln)
    return "\n".join(out)


def clean_repo():
    rc, out = sh("git -C %s status --porcelain" % REPO)
    return out.strip() == ""


def do_import(pid, src):
    n = 0
    for f in sorted(os.listdir(src)):
        m = re.match(r"patch_(\w+)\.diff$", f)
        if not m:
            continue
        tag = m.group(1)
        meta_p = os.path.join(src, "meta_%s.json" % tag)
        demo_p = os.path.join(src, "demo_%s.py" % tag)
        if not (os.path.exists(meta_p) and os.path.exists(demo_p)) or os.path.getsize(os.path.join(src, f)) == 0:
            print("skip %s: incomplete" % f)
            continue
        try:
            meta = json.load(open(meta_p))
        except Exception as e:
            meta = {"title": "unparsable meta: %s" % e}
        slug = re.sub(r"[^a-z0-9]+", "-", (meta.get("title") or tag).lower()).strip("-")[:50] or tag
        d = os.path.join(VERIF, "seeded", pid, "%s-%s" % (tag.lower(), slug))
        os.makedirs(d, exist_ok=True)
        shutil.copy(os.path.join(src, f), os.path.join(d, "patch.diff"))
        shutil.copy(demo_p, os.path.join(d, "demo.py"))
        meta["property"] = pid
        meta["origin"] = "independent sub-agent given only the property text and a scratch worktree"
        json.dump(meta, open(os.path.join(d, "meta.json"), "w"), indent=1)
        print("imported", d)
        n += 1
    return n


def do_import_benign(pid, src):
    n = 0
    for f in sorted(os.listdir(src)):
        m = re.match(r"patch_(R\w+)\.diff$", f)
        if not m:
            continue
        tag = m.group(1)
        meta_p = os.path.join(src, "meta_%s.json" % tag)
        eq_p = os.path.join(src, "equiv_%s.py" % tag)
        if not (os.path.exists(meta_p) and os.path.exists(eq_p)) or os.path.getsize(os.path.join(src, f)) == 0:
            print("skip %s: incomplete" % f)
            continue
        try:
            meta = json.load(open(meta_p))
        except Exception as e:
            meta = {"title": "unparsable meta: %s" % e}
        slug = re.sub(r"[^a-z0-9]+", "-", (meta.get("title") or tag).lower()).strip("-")[:44] or tag
        d = os.path.join(VERIF, "seeded", pid, "benign-%s-%s" % (tag.lower(), slug))
        os.makedirs(d, exist_ok=True)
        shutil.copy(os.path.join(src, f), os.path.join(d, "patch.diff"))
        shutil.copy(eq_p, os.path.join(d, "demo.py"))
        for extra in os.listdir(src):
            # helper modules the equivalence scripts import from their own directory
            if extra.endswith(".py") and not re.match(r"(equiv_R|demo_)", extra):
                shutil.copy(os.path.join(src, extra), os.path.join(d, extra))
        meta["property"] = pid
        meta["kind"] = "benign"
        meta["origin"] = "independent sub-agent asked for behaviour-preserving refactorings of the property's code (given only the property text and a scratch worktree)"
        json.dump(meta, open(os.path.join(d, "meta.json"), "w"), indent=1)
        print("imported", d)
        n += 1
    return n


def run_checks(pids, root=REPO):
    out = {}
    for pid in pids:
        # VERIF_CODE: run the checks of a frozen copy of /verif (so that the checkers can be worked on meanwhile)
        rc, txt = sh("./check %s --repo %s --no-evidence" % (pid, root) if root != "/repo" else "./check %s" % pid, cwd=os.environ.get("VERIF_CODE", VERIF))
        rules = sorted(set(re.findall(r"\[([A-Z0-9][A-Z0-9-]+)\]", "\n".join(l for l in txt.splitlines() if l.startswith("  ") and "[" in l and "rule " not in l[:8]))))
        viol = [l for l in txt.splitlines() if l.startswith("VIOLATION")]
        out[pid] = {"exit": rc, "violations": len(viol), "rules": rules}
    return out


def confirm(d, tests=False, pids=None, root=REPO):
    """root: the tree the change is applied to — /repo itself, or a scratch worktree of it (parallel runs)"""
    global REPO
    saved_repo, REPO = REPO, root
    try:
        return _confirm(d, tests, pids, root)
    finally:
        REPO = saved_repo


def _confirm(d, tests, pids, root):
    d = os.path.abspath(d.rstrip("/"))
    meta_p = os.path.join(d, "meta.json")
    meta = json.load(open(meta_p))
    pid = meta["property"]
    if not clean_repo():
        print("REFUSING: /repo has uncommitted changes")
        return None
    demo_env = dict(os.environ, PYTHONPATH=REPO)
    rc0, out0 = sh("%s %s" % (PY, os.path.join(d, "demo.py")), cwd="/tmp", env=demo_env, timeout=600)
    rca, outa = sh("git -C %s apply --whitespace=nowarn %s" % (REPO, os.path.join(d, "patch.diff")))
    result = {"applies": rca == 0}
    try:
        if rca != 0:
            print("patch does not apply:", outa[-400:])
        else:
            rcc, outc = sh("%s -m compileall -q commonroad" % PY, cwd=REPO)
            result["compiles"] = rcc == 0
            rc1, out1 = sh("%s %s" % (PY, os.path.join(d, "demo.py")), cwd="/tmp", env=demo_env, timeout=600)
            result["_out1"] = out1
            result["demo_on_clean"] = {"exit": rc0, "tail": out0.strip().splitlines()[-1:] if out0.strip() else []}
            result["demo_on_changed"] = {"exit": rc1, "tail": [l for l in out1.splitlines() if l.startswith("VIOLATED")][:2] or out1.strip().splitlines()[-1:]}
            result["checks"] = run_checks(pids or ALL, root)
            if tests:
                rct, outt = sh("%s %s/tools/baseline.py" % ("python3", VERIF))
                result["baseline"] = outt.strip().splitlines()[-3:]
    finally:
        sh("git -C %s checkout -- ." % REPO)
        sh("git -C %s clean -fdq -- commonroad" % REPO)
    if not clean_repo():
        print("WARNING: /repo not clean after restore")
    if result.get("applies") and meta.get("kind") == "benign":
        alarms = sorted(p for p, r in result["checks"].items() if r["exit"] == 1)
        refused = sorted(p for p, r in result["checks"].items() if r["exit"] not in (0, 1))
        result["false_alarms"] = alarms
        result["refusals"] = refused
        result["caught_by"] = alarms
        result["analysis_errors"] = refused
        result["equivalent_output"] = bool(out0.strip()) and _no_warnings(out0) == _no_warnings(result.pop("_out1", None) or "")
        result["confirmed"] = result["equivalent_output"]
        result["caught_by_own_property"] = pid in alarms
    elif result.get("applies"):
        caught = sorted(p for p, r in result["checks"].items() if r["exit"] == 1)
        broken = sorted(p for p, r in result["checks"].items() if r["exit"] not in (0, 1))
        result["caught_by"] = caught
        result["analysis_errors"] = broken
        result["confirmed"] = bool(rc0 == 0 and result["demo_on_changed"]["exit"] == 1)
        result["caught_by_own_property"] = pid in caught
    result.pop("_out1", None)
    meta["confirmation"] = result
    json.dump(meta, open(meta_p, "w"), indent=1)
    return result


def _confirm_pid(pid):
    base = os.path.join(VERIF, "seeded")
    wt = "/tmp/seed/wt_%s" % pid
    lines = []
    if not os.path.isdir(wt):
        return ["%s: scratch worktree %s missing" % (pid, wt)]
    sh("git -C %s checkout -- ." % wt)
    for name in sorted(os.listdir(os.path.join(base, pid))):
        d = os.path.join(base, pid, name)
        if not os.path.exists(os.path.join(d, "patch.diff")):
            continue
        r = confirm(d, root=wt) or {}
        kind = json.load(open(os.path.join(d, "meta.json"))).get("kind", "break")
        lines.append("%s %-6s %-55s confirmed=%s %s=%s refused=%s" % (pid, kind, name[:55], r.get("confirmed"), "alarms" if kind == "benign" else "caught_by", ",".join(r.get("caught_by", [])), ",".join(r.get("analysis_errors", []))))
    return lines


def main():
    a = sys.argv[1:]
    if not a:
        print(__doc__)
        return 2
    if a[0] == "import":
        do_import(a[1], a[2])
    elif a[0] == "import-benign":
        do_import_benign(a[1], a[2])
    elif a[0] == "confirm":
        r = confirm(a[1], tests="--tests" in a)
        print(json.dumps({k: v for k, v in (r or {}).items() if k != "checks"}, indent=1))
        if r and "checks" in r:
            for p, c in r["checks"].items():
                if c["exit"] != 0:
                    print("  %s exit=%d rules=%s" % (p, c["exit"], c["rules"]))
    elif a[0] == "report":
        base = os.path.join(VERIF, "seeded")
        print("| property | seeded change (origin: sub-agent) | kind | confirmed by demo | checks that fire | refused (exit 2) |")
        print("|---|---|---|---|---|---|")
        for pid in sorted(x for x in os.listdir(base) if os.path.isdir(os.path.join(base, x))):
            for name in sorted(os.listdir(os.path.join(base, pid))):
                mp = os.path.join(base, pid, name, "meta.json")
                if not os.path.exists(mp):
                    continue
                mt = json.load(open(mp))
                c = mt.get("confirmation", {})
                rules = "; ".join("%s %s" % (p, ",".join(r["rules"])) for p, r in sorted(c.get("checks", {}).items()) if r["exit"] == 1)
                print("| %s | %s | %s | %s | %s | %s |" % (pid, (mt.get("title") or name).replace("|", "/")[:110], mt.get("kind", "break"), "yes" if c.get("confirmed") else "NO", rules or "-", ",".join(c.get("analysis_errors", [])) or "-"))
    elif a[0] == "parallel":
        # every property's changes in that property's scratch worktree /tmp/seed/wt_<PID> (clean, at /repo's HEAD)
        from concurrent.futures import ProcessPoolExecutor

        base = os.path.join(VERIF, "seeded")
        only = a[1:] or sorted(os.listdir(base))
        jobs = [pid for pid in only if os.path.isdir(os.path.join(base, pid))]
        with ProcessPoolExecutor(max_workers=16) as ex:
            for lines in ex.map(_confirm_pid, jobs):
                print("\n".join(lines), flush=True)
    elif a[0] == "all":
        rows = []
        base = os.path.join(VERIF, "seeded")
        for pid in sorted(x for x in os.listdir(base) if os.path.isdir(os.path.join(base, x))):
            for name in sorted(os.listdir(os.path.join(base, pid))):
                d = os.path.join(base, pid, name)
                if not os.path.exists(os.path.join(d, "patch.diff")):
                    continue
                r = confirm(d)
                rows.append((pid, name, r))
                kind = json.load(open(os.path.join(d, "meta.json"))).get("kind", "break")
                print("%s %-6s %-55s confirmed=%s %s=%s refused=%s" % (pid, kind, name[:55], r.get("confirmed"), "alarms" if kind == "benign" else "caught_by", ",".join(r.get("caught_by", [])), ",".join(r.get("analysis_errors", []))))
        # restore evidence of the clean tree
        for pid in ALL:
            sh("./check %s" % pid, cwd=VERIF)
    return 0


if __name__ == "__main__":
    sys.exit(main())
